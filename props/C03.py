"""C03 Smoothing posterior equals the exact Rauch-Tung-Striebel posterior."""
from contracts import smoothing

LEVEL = "proof"


def contracts():
    from contracts import lemmas

    from contracts import interp, ivp

    out = smoothing.contracts() + [lemmas.rts_contract()]
    # checkpoints inside a step: what the smoothers hand back for further stepping / interpolation (dynamic scale included)
    for layout in ("dense", "isotropic", "blockdiag"):
        c = ivp.Cfg(layout, "dynamic", "fixedpoint", "ts0", q=1, d=1)
        out += [interp.interpolate_fwd_contract(c), interp.interpolate_at_t1_contract(c)]
    # ... and which state the time-stepping loop continues to interpolate from after a checkpoint (C06 loop contract)
    from contracts import adaptive

    out += [adaptive.loop_contract(False), adaptive.loop_contract(True)]
    return out
