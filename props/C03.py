"""C03 Smoothing posterior equals the exact Rauch-Tung-Striebel posterior."""
from contracts import smoothing

LEVEL = "proof"


def contracts():
    from contracts import lemmas

    return smoothing.contracts() + [lemmas.rts_contract()]
