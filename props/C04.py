"""C04 Output-scale calibration is the documented estimator and is scale-equivariant."""
from contracts import calibration, ivp, lemmas, solvers

LEVEL = "proof"


def contracts():
    out = calibration.contracts()
    # the per-step estimators (running quasi-MLE mean, dynamic local scale) are clauses of the step contracts
    for layout in ("dense", "isotropic", "blockdiag"):
        out.append(solvers.step_contract(ivp.Cfg(layout, "mle", "filter", "ts0", q=1, d=2)))
        out.append(solvers.step_contract(ivp.Cfg(layout, "dynamic", "filter", "ts0", q=1, d=2)))
        out.append(solvers.step_contract(ivp.Cfg(layout, "mle", "fixedpoint", "ts1", q=1, d=1)))
    out.append(lemmas.equivariance_contract())
    # the scale reported at checkpoints (dynamic mode: the estimate of the step that contains / ends at the checkpoint)
    from contracts import interp

    for layout in ("dense", "isotropic", "blockdiag"):
        c = ivp.Cfg(layout, "dynamic", "filter", "ts0", q=1, d=1)
        out += [interp.interpolate_fwd_contract(c), interp.interpolate_at_t1_contract(c)]
    # premise of the equivariance lemma (base scale c enters only through Q -> c^2 Q): the process noise of every
    # prior, built by the real constructors, is linear in the base scale and in the calibrated scale (shared with C09)
    from contracts import exp_priors, gaussians, priors

    out += [priors.transition_contract(L, explicit_std=es) for L in gaussians.LAYOUTS for es in (False, True)]
    out += [exp_priors.transition_contract(kind, diffuse=df) for kind in ("general", "ou", "matern") for df in (0, 1)]
    out += [exp_priors.transition_contract(kind, explicit_std=True) for kind in ("general", "ou", "matern")]
    return out
