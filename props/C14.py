"""C14 State-space factorisations agree wherever theory says they must.

Decomposition: (i) each factorisation's step is exactly the textbook EKF with its documented structure (the C02
step contracts, re-run here for the configurations C14 talks about); (ii) the textbook EKF update commutes with
the embeddings isotropic -> dense and block-diagonal -> dense, and the gain is unique for a non-singular
innovation covariance (machine-checked lemmas about the specification, contracts/lemmas.py)."""
from contracts import ivp, lemmas, solvers

LEVEL = "proof"


def contracts():
    out = lemmas.contracts()
    for layout in ("dense", "isotropic", "blockdiag"):
        for calib in ("none", "mle"):
            out.append(solvers.step_contract(ivp.Cfg(layout, calib, "filter", "ts0", q=1, d=2)))
        out.append(solvers.step_contract(ivp.Cfg(layout, "dynamic", "filter", "ts0", q=1, d=2)))
        out.append(solvers.step_contract(ivp.Cfg(layout, "none", "filter", "ts1", q=1, d=2)))
    from contracts import calibration, errors

    # the quantities through which the factorisations must agree in adaptive / calibrated runs: local error estimates
    # (shared value for the isotropic model, per dimension for the other two) and the final calibration
    for layout in ("dense", "isotropic", "blockdiag"):
        out.append(errors.estimator_contract(errors.ECfg(layout, "residual", relin=False, per_unit=False, lin="ts0", q=1, d=2)))
        out.append(errors.estimator_contract(errors.ECfg(layout, "state", relin=False, per_unit=False, idx=0, lin="ts0", q=1, d=2)))
        out.append(calibration.output_contract(ivp.Cfg(layout, "mle", "filter", "ts0", q=1, d=2), correct=True))
    out += [errors.norm_agreement_contract("error_norm_scale_then_rms"), errors.norm_agreement_contract("error_norm_rms_then_scale")]
    return out
