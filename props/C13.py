"""C13 Posterior samples are exact affine images of the normal draws."""
from contracts import sampling

LEVEL = "proof"


def contracts():
    return sampling.contracts()
