"""C07 The acceptance quantity equals the documented local error estimate."""
from contracts import errors, lemmas

LEVEL = "proof"


def contracts():
    return list(errors.norm_contracts) + [errors.estimator_contract(c) for c in errors.configs("thorough")] + [lemmas.equivariance_contract()]
