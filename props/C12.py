"""C12 Marginal-likelihood losses equal the exact Gaussian log-density of the data."""
from contracts import gaussians as G
from contracts import losses
from contracts import normals as N

LEVEL = "proof"


def contracts():
    out = losses.contracts()
    for L in G.LAYOUTS:
        out.append(N.BY_LAYOUT[L.tag]["logpdf_flat"])
        out.append(N.BY_LAYOUT[L.tag]["to_derivative"])
    from contracts import lemmas

    out.append(lemmas.triangular_contract())
    return out
