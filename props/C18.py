"""C18 Initial step-size proposals are positive, finite and follow the heuristics."""
from contracts import stepsize

LEVEL = "proof"


def contracts():
    return stepsize.contracts()
