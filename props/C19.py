"""C19 Constrained least-squares points are feasible, optimal, exact if affine."""
from contracts import gauss_newton

LEVEL = "proof"


def contracts():
    return gauss_newton.contracts()
