"""C19 Constrained least-squares points are feasible, optimal, exact if affine."""
from contracts import gauss_newton

LEVEL = "proof"


def contracts():
    from contracts import jets

    # its use inside the residual-based Taylor-coefficient routine (what is handed to the solver, what is done with the answer)
    return gauss_newton.contracts() + [jets.residual_routine_contract()]
