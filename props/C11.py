"""C11 Jet-lifting and constraint constructors differentiate constraints exactly."""
import itertools

from contracts import ivp, lifting, solvers

LEVEL = "proof"


def contracts():
    out = lifting.contracts()
    # linearize() of TS0 / residual constraints: value and (full / diagonal / trace-averaged) Jacobian at the
    # linearisation point are the 'cached_linearisation_*' clauses of the step contracts
    for layout in ("dense", "isotropic", "blockdiag"):
        out.append(solvers.step_contract(ivp.Cfg(layout, "none", "filter", "ts0", q=2, d=2)))
        out.append(solvers.step_contract(ivp.Cfg(layout, "none", "filter", "ts1", q=2, d=2)))
        out.append(solvers.step_contract(ivp.Cfg(layout, "none", "filter", "ts1", q=2, d=1, order=2)))
    # the TS1 ODE constraint linearises where the requested Taylor-point rule says (abstract rule xi(mean, cholesky))
    out.append(solvers.step_contract(ivp.Cfg("dense", "none", "filter", "ts1", q=1, d=1, taylor="abstract")))
    return out


def extra_checks(tier, seed):
    """Bounded (exhaustive over the stated finite domain, NOT counted as proved): lift_by admissibility."""
    import jax.numpy as jnp
    import probdiffeq.probdiffeq as pd

    viol, n, samples = [], 0, []
    for order in (1, 2):
        ode = {1: pd.ode, 2: pd.ode_order_two}[order](lambda *a, t: a[0] * t)
        for ncoords in range(order, order + 5):
            coords = [jnp.ones((1,)) * (i + 1) for i in range(ncoords)]
            for lift in range(-2, 7):
                n += 1
                admissible = 0 <= lift <= ncoords - order
                try:
                    lifted = ode.jet_lift(lift_by=lift)
                    out = lifted.vector_field(jet_coords=coords, t=jnp.asarray(0.5))
                    raised = None
                    ok = admissible and len(out) == lift + 1
                except ValueError as e:
                    raised = "ValueError"
                    ok = not admissible
                except Exception as e:
                    raised = type(e).__name__
                    ok = False
                if not ok:
                    viol.append({"contract": "extra:lift_by_admissibility", "obligation": f"order={order},ncoords={ncoords},lift_by={lift}", "reason": f"admissible={admissible} raised={raised}", "native": {"violated": True}})
                if len(samples) < 3:
                    samples.append({"order": order, "ncoords": ncoords, "lift_by": lift, "admissible": admissible, "raised": raised})
        for bad in (1.0, "1", None):
            n += 1
            try:
                ode.jet_lift(lift_by=bad)
                viol.append({"contract": "extra:lift_by_type", "obligation": f"lift_by={bad!r}", "reason": "no TypeError", "native": {"violated": True}})
            except TypeError:
                pass
    return [{"bounded": True, "obligations": 0, "discharged": 0, "violations": viol, "functions": {"extra:lift_by_admissibility(bounded enumeration, not proof)": {"instances": n, "obligations": 0, "discharged": 0}}, "samples": samples}]
