"""C06 Adaptive step control is safe for every accept/reject history."""
from contracts import adaptive as A

LEVEL = "proof"


def contracts():
    return [A.control_integral_apply, A.control_pi_apply, A.step_attempt_contract(False), A.step_attempt_contract(True), A.step_contract(False), A.step_contract(True), A.loop_contract(False), A.loop_contract(True), A.solve_contract(False), A.solve_contract(True), A.terminal_values_contract()]


def extra_checks(tier, seed):
    """Bounded stand-in (NOT counted as proved): ``test_util.solve_adaptive_save_every_step`` drives the verified
    ``RejectionLoop.loop`` from a native Python ``while`` over concrete values, which the jaxpr-based generator cannot
    extract.  It is run natively with a concrete mock solver / error estimate (accept iff dt <= h_adm(t), h_adm
    piecewise constant) and the *real* controllers over an enumerated family of profiles, and the C06 clauses are
    checked on every run: time advances only through admissible steps, every saved state is an accepted step, the
    reported step count equals the number of accepted attempts, nothing is saved beyond t1 when clipping."""
    import itertools

    import jax
    import jax.numpy as jnp
    import numpy as np
    import probdiffeq.ivpsolve as ivpsolve
    from probdiffeq._probdiffeq.solvers import ProbabilisticSolution
    from probdiffeq._probdiffeq.utilities import InterpResult
    from probdiffeq.util import test_util

    def sol(t, ns, data):
        return ProbabilisticSolution(t=t, u=data, solution_full=None, output_scale=None, num_steps=ns, auxiliary=None, fun_evals=None, prior=None)

    class Solver:
        is_suitable_for_save_at = True
        is_suitable_for_save_every_step = True

        def init(self, t, u, damp):
            return sol(jnp.asarray(t, dtype=float), jnp.asarray(0.0), jnp.zeros((1,)))

        def step(self, state, dt, damp):
            return sol(state.t + dt, state.num_steps + 1.0, state.u + dt)  # payload accumulates the accepted step sizes

        def interpolate_fwd(self, *, t, interp_from, interp_to):
            mid = sol(t, interp_to.num_steps, interp_from.u + (t - interp_from.t))
            return mid, InterpResult(step_from=interp_to, interp_from=mid)

        def interpolate_fwd_at_t1(self, *, t, interp_from, interp_to):
            return interp_to, InterpResult(step_from=interp_to, interp_from=interp_to)

        def userfriendly_output(self, *, solution0, solution, solution1):
            return solution

    def make_error(h1, h2, switch):
        class Error:
            def init_error(self):
                return jnp.zeros((1,))

            def estimate_error_norm(self, state, previous, proposed, *, dt, atol, rtol, damp):
                h = jnp.where(previous.t < switch, h1, h2)
                return h / dt, state  # error_power >= 1  <=>  dt <= admissible step

        return Error()

    profiles = [(0.3, 0.05, 0.5), (0.05, 0.4, 0.3), (0.2, 0.2, 0.5)]
    dt0s = [0.01, 0.15, 0.9]
    if tier == "thorough":
        profiles += [(0.02, 0.5, 0.7), (0.5, 0.02, 0.2), (0.11, 0.07, 0.45)]
        dt0s += [0.3, 2.0]
    controls = [("integral", lambda: ivpsolve.control_integral()), ("pi", lambda: ivpsolve.control_proportional_integral())]
    viol, n, samples = [], 0, []
    t0, t1 = 0.0, 1.0
    for (h1, h2, sw), dt0, clip, (cname, mk) in itertools.product(profiles, dt0s, (False, True), controls):
        n += 1
        tag = f"h=({h1},{h2})@{sw},dt0={dt0},clip={clip},control={cname}"
        try:
            solve = test_util.solve_adaptive_save_every_step(solver=Solver(), error=make_error(h1, h2, sw), control=mk(), clip_dt=clip)
            out = solve(jnp.zeros((1,)), t0=t0, t1=t1, atol=1e-3, rtol=1e-3, dt0=dt0, eps=1e-8)
            ts = np.asarray(out.t)
            ns = np.asarray(out.num_steps)
            acc = np.asarray(out.u)[:, 0]
            problems = []
            prev = np.concatenate([[t0], ts[:-1]])
            steps = ts - prev
            if not np.all(steps > 0):
                problems.append("saved times are not strictly increasing")
            adm = np.where(prev < sw, h1, h2)
            if not np.all(steps <= adm * (1 + 1e-12)):
                problems.append(f"a saved step exceeds the admissible step: {steps.tolist()} vs {adm.tolist()}")
            if not np.allclose(ns, np.arange(1, len(ts) + 1)):
                problems.append(f"reported step counts {ns.tolist()} are not 1..N (a rejected attempt changed the state, or an accepted step was not saved)")
            if not np.allclose(acc, ts - t0, atol=1e-12):
                problems.append("the saved state did not advance by exactly the accepted steps")
            if ts[-1] < t1 - 1e-8:
                problems.append(f"stopped at {ts[-1]} before t1")
            if len(ts) > 1 and ts[-2] >= t1:
                problems.append("stepped on after reaching t1")
            if clip and ts[-1] > t1 + 1e-12:
                problems.append(f"clipping enabled but a step ended at {ts[-1]} > t1")
            if problems:
                viol.append({"contract": "extra:save_every_step(bounded)", "obligation": tag, "reason": "; ".join(problems), "native": {"violated": True, "times": ts.tolist()}})
            if len(samples) < 3:
                samples.append({"run": tag, "saved_times": [round(float(x), 6) for x in ts[:8]], "steps": len(ts)})
        except Exception as e:  # a crash of the real function on a valid configuration is a violation, not a checker error
            viol.append({"contract": "extra:save_every_step(bounded)", "obligation": tag, "reason": f"raised {type(e).__name__}: {str(e)[:200]}", "native": {"violated": True}})
    return [{"bounded": True, "obligations": 0, "discharged": 0, "violations": viol, "functions": {"extra:test_util.solve_adaptive_save_every_step(bounded native runs, not proof)": {"instances": n, "obligations": 0, "discharged": 0}}, "samples": samples}]
