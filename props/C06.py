"""C06 Adaptive step control is safe for every accept/reject history."""
from contracts import adaptive as A

LEVEL = "proof"


def contracts():
    return [A.control_integral_apply, A.control_pi_apply, A.step_attempt_contract(False), A.step_attempt_contract(True), A.step_contract(False), A.step_contract(True), A.loop_contract(False), A.loop_contract(True), A.solve_contract(False), A.solve_contract(True)]
