"""C17 Jacobian handlers return exact or exactly-unbiased Jacobian blocks."""
from contracts import jacobians

LEVEL = "proof"


def contracts():
    return jacobians.contracts()
