"""C05 Checkpoint values do not depend on the checkpoint set; they interpolate exactly."""
from contracts import interp, ivp

LEVEL = "proof"


def contracts():
    out = []
    for c in interp.configs("thorough"):
        out.append(interp.interpolate_fwd_contract(c))
        out.append(interp.interpolate_at_t1_contract(c))
    return out
