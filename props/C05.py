"""C05 Checkpoint values do not depend on the checkpoint set; they interpolate exactly."""
from contracts import adaptive, interp, ivp

LEVEL = "proof"


def contracts():
    out = []
    for c in interp.configs("thorough"):
        out.append(interp.interpolate_fwd_contract(c))
        out.append(interp.interpolate_at_t1_contract(c))
    out.append(adaptive.terminal_values_contract())
    # which branch a checkpoint takes (before / within eps / beyond) and what is handed on: the rejection-loop contract of C06
    out += [adaptive.loop_contract(False), adaptive.loop_contract(True)]
    for layout in ("dense", "isotropic", "blockdiag"):
        d = 1 if layout == "dense" else 2
        out.append(interp.offgrid_contract(ivp.Cfg(layout, "none", "filter", "ts0", q=1, d=d), N=2, k=1))
        out.append(interp.offgrid_contract(ivp.Cfg(layout, "dynamic", "fixedinterval", "ts0", q=1, d=d), N=2, k=0))
    # premise of the off-grid contract (it re-discretises the prior with ``solution.output_scale``): the scale a solver
    # reports is the one its posterior was calibrated with -- for the MLE solver that is decided only in
    # ``userfriendly_output`` (home contracts shared with C04)
    from contracts import calibration

    out += [c for c in calibration.contracts() if "solver_mle" in c.name]
    return out
