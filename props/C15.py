"""C15 Results are invariant under pytree structure, permutation, jit and vmap (layout part)."""
from contracts import layouts

LEVEL = "proof"


def contracts():
    from contracts import lemmas

    from contracts import errors, ivp, solvers

    out = layouts.contracts() + [lemmas.permutation_contract()]
    # pytree-structured states satisfy the same flat specification as array states (steps and error estimates)
    for layout in ("dense", "isotropic", "blockdiag"):
        out.append(solvers.step_contract(ivp.Cfg(layout, "mle", "filter", "ts1", q=1, d=2, pytree=True)))
        out.append(solvers.step_contract(ivp.Cfg(layout, "dynamic", "fixedpoint", "ts0", q=1, d=2, pytree=True)))
    out += [errors.estimator_contract(c) for c in errors.pytree_configs()]
    # Taylor-coefficient initialisation of pytree-structured states (time-dependent polynomial fields): same numbers as flat
    from contracts import jets

    out += [jets.routine_contract("unroll", pytree=True), jets.routine_contract("via_jvp", pytree=True), jets.routine_contract("padded_scan", pytree=True)]
    return out


def extra_checks(tier, seed):
    """Bounded stand-in (NOT counted as proved) for the jit / vmap clause: equality of jit(f) and vmap(f) with f is
    JAX's own specification and no contract on repository code implies it; what can be done here is to run the real
    adaptive solves natively on a small family (three factorisations x filter / fixed-point smoother x a batch whose
    members need different numbers of steps) and compare compiled vs uncompiled and batched vs one-at-a-time."""
    import jax
    import jax.numpy as jnp
    import numpy as np
    import probdiffeq.ivpsolve as ivpsolve
    import probdiffeq.probdiffeq as pd

    jax.config.update("jax_enable_x64", True)
    viol, n, samples = [], 0, []
    ssms = {"dense": pd.state_space_model_dense, "isotropic": pd.state_space_model_isotropic, "blockdiag": pd.state_space_model_blockdiag}
    strategies = {"filter": pd.strategy_filter, "fixedpoint": pd.strategy_smoother_fixedpoint}
    save_at = jnp.linspace(0.0, 1.0, 4)
    rates = jnp.asarray([0.5, 3.0, 9.0] if tier == "quick" else [0.3, 1.0, 3.0, 9.0, 20.0])  # stiffer member => more steps

    for (sname, mk), (stname, mkst) in ((a, b) for a in ssms.items() for b in strategies.items()):
        def solve(rate, mk=mk, mkst=mkst):
            vf = pd.ode(lambda y, /, *, t: -rate * y * (1.0 + 0.5 * jnp.sin(3.0 * t)) + jnp.flip(y) * 0.1)
            u0 = jnp.asarray([1.0, 0.5])
            tcoeffs, _ = pd.jetexpand_ode_padded_scan(num=2)(vf, (u0,), t=0.0)
            ssm = mk()
            prior = ssm.prior_wiener_integrated(tcoeffs)
            con = ssm.constraint_ode_ts0(vf)
            solver = pd.solver_mle(strategy=mkst(), constraint=con)
            run = ivpsolve.solve_adaptive_save_at(solver=solver, error=pd.error_residual_std(constraint=con))
            sol = run(prior, save_at=save_at, atol=1e-4, rtol=1e-3, dt0=0.05)
            return jnp.stack([jnp.asarray(m) for m in sol.u.mean]), jnp.stack([jnp.asarray(s) for s in sol.u.std]), sol.num_steps, sol.output_scale

        tag = f"{sname},{stname}"
        try:
            one_by_one = [solve(r) for r in rates]
            jitted = [jax.jit(solve)(r) for r in rates[:2]]
            batched = jax.vmap(solve)(rates)
        except Exception as e:
            viol.append({"contract": "extra:jit_vmap(bounded)", "obligation": tag, "reason": f"raised {type(e).__name__}: {str(e)[:200]}", "native": {"violated": True}})
            continue
        steps = [int(np.asarray(o[2])[-1]) for o in one_by_one]
        for k, ref in enumerate(one_by_one):
            n += 1
            for nm, a, b in zip(("mean", "std", "num_steps", "output_scale"), ref, [x[k] for x in batched]):
                if not np.allclose(np.asarray(a), np.asarray(b), rtol=1e-9, atol=1e-12):
                    viol.append({"contract": "extra:jit_vmap(bounded)", "obligation": f"{tag},member={k}", "reason": f"vmap result differs from the one-at-a-time result in {nm} (max abs diff {float(np.max(np.abs(np.asarray(a) - np.asarray(b)))):.3e})", "native": {"violated": True}})
        for k, ref in enumerate(one_by_one[:2]):
            n += 1
            for nm, a, b in zip(("mean", "std", "num_steps", "output_scale"), ref, jitted[k]):
                if not np.allclose(np.asarray(a), np.asarray(b), rtol=1e-9, atol=1e-12):
                    viol.append({"contract": "extra:jit_vmap(bounded)", "obligation": f"{tag},member={k}", "reason": f"jit result differs from the uncompiled result in {nm}", "native": {"violated": True}})
        if len(set(steps)) < 2:
            viol.append({"contract": "extra:jit_vmap(bounded)", "obligation": tag, "reason": f"harness: batch members do not need different step counts ({steps})", "native": {"violated": False}})
        if len(samples) < 3:
            samples.append({"run": tag, "steps_per_member": steps})
    return [{"bounded": True, "obligations": 0, "discharged": 0, "violations": viol, "functions": {"extra:jit/vmap of solve_adaptive_save_at (bounded native comparison, not proof)": {"instances": n, "obligations": 0, "discharged": 0}}, "samples": samples}]
