"""C15 Results are invariant under pytree structure, permutation, jit and vmap (layout part)."""
from contracts import layouts

LEVEL = "proof"


def contracts():
    from contracts import lemmas

    return layouts.contracts() + [lemmas.permutation_contract()]
