"""C15 Results are invariant under pytree structure, permutation, jit and vmap (layout part)."""
from contracts import layouts

LEVEL = "proof"


def contracts():
    from contracts import lemmas

    from contracts import errors, ivp, solvers

    out = layouts.contracts() + [lemmas.permutation_contract()]
    # pytree-structured states satisfy the same flat specification as array states (steps and error estimates)
    for layout in ("dense", "isotropic", "blockdiag"):
        out.append(solvers.step_contract(ivp.Cfg(layout, "mle", "filter", "ts1", q=1, d=2, pytree=True)))
        out.append(solvers.step_contract(ivp.Cfg(layout, "dynamic", "fixedpoint", "ts0", q=1, d=2, pytree=True)))
    out += [errors.estimator_contract(c) for c in errors.pytree_configs()]
    return out
