"""C02 Filter posterior equals the exact Gaussian posterior of the linearised model."""
from contracts import ivp, solvers

LEVEL = "proof"


def configs(tier):
    out = []
    for layout in ("dense", "isotropic", "blockdiag"):
        for lin in ("ts0", "ts1"):
            out.append(ivp.Cfg(layout, "none", "filter", lin, q=1, d=1))
            out.append(ivp.Cfg(layout, "none", "filter", lin, q=2, d=2))
            out.append(ivp.Cfg(layout, "none", "filter", lin, q=2, d=1, order=2))
    for layout in ("dense", "isotropic", "blockdiag"):
        out.append(ivp.Cfg(layout, "mle", "filter", "ts0", q=1, d=2))
        out.append(ivp.Cfg(layout, "mle", "filter", "ts1", q=2, d=1))
        out.append(ivp.Cfg(layout, "dynamic", "filter", "ts0", q=1, d=2))
        out.append(ivp.Cfg(layout, "dynamic", "filter", "ts1", q=2, d=1, relin=True))
        out.append(ivp.Cfg(layout, "none", "fixedinterval", "ts0", q=1, d=2))
        out.append(ivp.Cfg(layout, "none", "fixedpoint", "ts1", q=1, d=1))
    return out


def init_configs():
    out = []
    for layout in ("dense", "isotropic", "blockdiag"):
        out.append((ivp.Cfg(layout, "none", "filter", "ts0", q=1, d=2), True))
        out.append((ivp.Cfg(layout, "none", "filter", "ts1", q=2, d=1), True))
        out.append((ivp.Cfg(layout, "mle", "filter", "ts0", q=1, d=2), True))
        out.append((ivp.Cfg(layout, "mle", "filter", "ts1", q=1, d=1), False))
        out.append((ivp.Cfg(layout, "dynamic", "filter", "ts1", q=1, d=2), True))
        out.append((ivp.Cfg(layout, "dynamic", "filter", "ts0", q=1, d=1), False))
        out.append((ivp.Cfg(layout, "none", "fixedinterval", "ts0", q=1, d=1), True))
        out.append((ivp.Cfg(layout, "none", "fixedpoint", "ts0", q=1, d=1), False))
    return out


def contracts():
    return [solvers.step_contract(c) for c in configs("thorough")] + [solvers.init_contract(c, w) for c, w in init_configs()]
