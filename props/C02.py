"""C02 Filter posterior equals the exact Gaussian posterior of the linearised model."""
from contracts import ivp, solvers

LEVEL = "proof"


def configs(tier):
    out = []
    for layout in ("dense", "isotropic", "blockdiag"):
        for lin in ("ts0", "ts1"):
            out.append(ivp.Cfg(layout, "none", "filter", lin, q=1, d=1))
            out.append(ivp.Cfg(layout, "none", "filter", lin, q=2, d=2))
            out.append(ivp.Cfg(layout, "none", "filter", lin, q=2, d=1, order=2))
    return out


def contracts():
    return [solvers.step_contract(c) for c in configs("thorough")]
