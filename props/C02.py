"""C02 Filter posterior equals the exact Gaussian posterior of the linearised model."""
from contracts import ivp, solvers

LEVEL = "proof"


def configs(tier):
    out = [ivp.Cfg("dense", "none", "filter", "ts0", q=1, d=1)]
    return out


def contracts():
    return [solvers.step_contract(c) for c in configs("thorough")]
