"""C02 Filter posterior equals the exact Gaussian posterior of the linearised model."""
from contracts import ivp, solvers

LEVEL = "proof"


def configs(tier):
    out = []
    for layout in ("dense", "isotropic", "blockdiag"):
        for lin in ("ts0", "ts1"):
            out.append(ivp.Cfg(layout, "none", "filter", lin, q=1, d=1))
            out.append(ivp.Cfg(layout, "none", "filter", lin, q=2, d=2))
            out.append(ivp.Cfg(layout, "none", "filter", lin, q=2, d=1, order=2))
    for layout in ("dense", "isotropic", "blockdiag"):
        out.append(ivp.Cfg(layout, "mle", "filter", "ts0", q=1, d=2))
        out.append(ivp.Cfg(layout, "mle", "filter", "ts1", q=2, d=1))
        out.append(ivp.Cfg(layout, "dynamic", "filter", "ts0", q=1, d=2))
        out.append(ivp.Cfg(layout, "dynamic", "filter", "ts1", q=2, d=1, relin=True))
        out.append(ivp.Cfg(layout, "none", "fixedinterval", "ts0", q=1, d=2))
        out.append(ivp.Cfg(layout, "none", "fixedpoint", "ts1", q=1, d=1))
    # Taylor points that may depend on the covariance of the random variable they are given (dense TS1): abstract rule
    out.append(ivp.Cfg("dense", "none", "filter", "ts1", q=1, d=1, taylor="abstract"))
    out.append(ivp.Cfg("dense", "dynamic", "filter", "ts1", q=1, d=1, relin=True, taylor="abstract"))
    out.append(ivp.Cfg("dense", "dynamic", "filter", "ts1", q=1, d=1, relin=False, taylor="abstract"))
    out.append(ivp.Cfg("dense", "mle", "fixedinterval", "ts1", q=1, d=1, taylor="abstract"))
    # thorough tier only: larger shapes and mixed configurations
    extra = [
        ivp.Cfg("dense", "none", "filter", "ts1", q=3, d=2), ivp.Cfg("isotropic", "none", "filter", "ts0", q=3, d=3),
        ivp.Cfg("blockdiag", "none", "filter", "ts1", q=3, d=2), ivp.Cfg("dense", "mle", "fixedinterval", "ts1", q=1, d=2),
        ivp.Cfg("isotropic", "dynamic", "fixedpoint", "ts0", q=2, d=2), ivp.Cfg("blockdiag", "mle", "fixedinterval", "ts0", q=2, d=2),
        ivp.Cfg("dense", "mle", "filter", "ts1", q=2, d=2, order=2), ivp.Cfg("isotropic", "dynamic", "filter", "ts1", q=2, d=2, order=2, relin=True),
        ivp.Cfg("blockdiag", "dynamic", "fixedinterval", "ts1", q=2, d=2, relin=True), ivp.Cfg("dense", "none", "filter", "ts0", q=4, d=1),
    ]
    for c in extra:
        c.thorough_only = True
    return out + extra


def init_configs():
    out = []
    for layout in ("dense", "isotropic", "blockdiag"):
        out.append((ivp.Cfg(layout, "none", "filter", "ts0", q=1, d=2), True))
        out.append((ivp.Cfg(layout, "none", "filter", "ts1", q=2, d=1), True))
        out.append((ivp.Cfg(layout, "mle", "filter", "ts0", q=1, d=2), True))
        out.append((ivp.Cfg(layout, "mle", "filter", "ts1", q=1, d=1), False))
        out.append((ivp.Cfg(layout, "dynamic", "filter", "ts1", q=1, d=2), True))
        out.append((ivp.Cfg(layout, "dynamic", "filter", "ts0", q=1, d=1), False))
        out.append((ivp.Cfg(layout, "none", "fixedinterval", "ts0", q=1, d=1), True))
        out.append((ivp.Cfg(layout, "none", "fixedpoint", "ts0", q=1, d=1), False))
    return out


def contracts():
    from contracts import adaptive, priors

    return [solvers.step_contract(c) for c in configs("thorough")] + [solvers.init_contract(c, w) for c, w in init_configs()] + priors.init_contracts() + [adaptive.fixed_grid_fold_contract()]
