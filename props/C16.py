"""C16 Automatic derivatives equal the true derivatives of the computed outputs.

Scope of this check: JAX's differentiation of standard primitives is trusted; what the repository adds is
(i) one custom rule (qr_r_jvp) -- under contract here, (ii) stop_gradient at documented places -- frame
check on the extracted jaxprs, (iii) linearity/transposability of the custom rule (forward = reverse)."""
import jax
import jax.numpy as jnp

from contracts import autodiff

LEVEL = "proof"


def contracts():
    return autodiff.contracts()


def _count(jaxpr, name):
    n = 0
    for e in jaxpr.eqns:
        if e.primitive.name == name:
            n += 1
        for v in e.params.values():
            subs = v if isinstance(v, (list, tuple)) else [v]
            for s in subs:
                j = getattr(s, "jaxpr", s)
                if hasattr(j, "eqns"):
                    n += _count(j, name)
    return n


def extra_checks(tier, seed):
    """Structural obligations on extracted jaxprs (decided exactly by inspection of the jaxpr)."""
    import numpy as np
    import probdiffeq.probdiffeq as pd
    from contracts import adaptive, ivp
    from probdiffeq.backend import linalg
    from vcgen import prims

    viol, ob, samples = [], 0, []
    rng = np.random.default_rng(seed)

    def expect(name, got, want):
        nonlocal ob
        ob += 1
        samples.append({"obligation": name, "stop_gradient_count": got, "expected": want})
        if got != want:
            viol.append({"contract": "extra:stop_gradient_frame", "obligation": name, "reason": f"found {got} stop_gradient equations, expected {want}", "native": {"violated": True}})

    # (ii) stop_gradient only where documented and only when requested
    for calib, flag, relin, want in [("none", None, None, 0), ("mle", None, None, 0)] + [("dynamic", fl, rl, 1 if fl else 0) for fl in (True, False) for rl in (False, True)]:
        cfg = ivp.Cfg("dense", calib, "filter", "ts0", q=1, d=1)
        ssm, ode, constraint, strategy, solver = ivp.make_solver(cfg)
        if calib == "dynamic":
            # both constructor options together: the stop is requested by one of them only
            solver = pd.solver_dynamic(constraint=constraint, strategy=strategy, stop_gradient_through_calibration=flag, re_linearize_after_calibration=relin)
        _, state = ivp.make_state(cfg, rng, solver=solver, ssm=ssm)
        j = jax.make_jaxpr(lambda s, dt: solver.step(s, dt=dt, damp=0.0))(state, jnp.asarray(0.1))
        expect(f"step[{calib},stop_gradient_through_calibration={flag},re_linearize_after_calibration={relin}]", _count(j.jaxpr, "stop_gradient"), want)
    from probdiffeq._ivpsolve.solvers_via_adaptive_steps import RejectionLoop
    from probdiffeq.backend import flow

    for flag, want in [(True, 1), (False, 0)]:
        with prims.symbolic_mode():
            loop = RejectionLoop(solver=adaptive.AbsSolver(), clip_dt=False, error=adaptive.AbsError(), control=adaptive.AbsControl(), while_loop=flow.while_loop, stop_gradient_through_dt=flag)
            st = adaptive._loopstate(rng)
            j = jax.make_jaxpr(lambda s: loop.step_attempt(s, t1=jnp.asarray(1.0), atol=1e-3, rtol=1e-3, damp=0.0))(st)
        expect(f"step_attempt[stop_gradient_through_dt={flag}]", _count(j.jaxpr, "stop_gradient"), want)

    # (iii) the custom rule is linear in the tangent and built from transposable primitives: reverse mode is its transpose
    M = jnp.asarray(rng.normal(size=(3, 2)))
    j = jax.make_jaxpr(lambda Md: linalg.qr_r_jvp((M,), (Md,))[1])(M)
    tainted = {j.jaxpr.invars[0]}
    linear_ok = True
    for e in j.jaxpr.eqns:
        ins = [v for v in e.invars if not hasattr(v, "val") and v in tainted]
        if not ins:
            continue
        if e.primitive.name not in ("transpose", "dot_general", "add", "sub", "neg", "convert_element_type", "reshape", "broadcast_in_dim"):
            linear_ok = False
        if e.primitive.name == "dot_general" and len(ins) != 1:
            linear_ok = False
        tainted.update(e.outvars)
    ob += 1
    samples.append({"obligation": "qr_r_jvp tangent map is linear in M_dot and transposable", "holds": linear_ok})
    if not linear_ok:
        viol.append({"contract": "extra:qr_r_jvp_linear", "obligation": "tangent_map_linear_and_transposable", "reason": "non-linear or non-transposable primitive on the tangent path", "native": {"violated": True}})
    # (iv) finiteness side condition for standard deviations at zero covariance (exact initial states are allowed):
    # the computation must not apply a primitive with a singular derivative (sqrt, division, log, power) to a
    # quantity that vanishes there.  Decided on the symbolic evaluation of the real std computation.
    from contracts.gaussians import LAYOUTS
    from vcgen import interp
    from vcgen import poly as P

    for L in LAYOUTS:
        P.reset()
        prims.reset()
        import importlib

        M = importlib.import_module(L.module)
        rv = L.normal_obj(rng, 2, 2)
        with prims.symbolic_mode():
            closed = jax.make_jaxpr(lambda m, c: jax.tree_util.tree_leaves(type(rv)(m, c, rv.tree_flatten)._std_batched()))(rv.mean_flat, rv.cholesky_flat)
        sym = [interp.to_obj(np.zeros(rv.mean_flat.shape)), None]
        arr = np.empty(rv.cholesky_flat.shape, dtype=object)
        for ix in np.ndindex(*arr.shape):
            arr[ix] = P.fresh(f"L{list(ix)}")
        sym[1] = arr
        ctx = interp.Ctx()
        interp.eval_jaxpr(ctx, closed.jaxpr, closed.consts, *sym)
        singular = [info["name"] + ":" + info["atom"] for info in P.SYMS if info["kind"] == "atom" and info.get("atom") in ("sqrt", "inv", "log", "pow") and not P.known_positive(info["args"][0].p)]
        ob += 1
        samples.append({"obligation": f"{L.normal}.std differentiable at zero covariance", "singular_primitives_on_vanishing_arguments": singular[:4]})
        if singular:
            viol.append({"contract": "extra:finite_derivative_at_zero_covariance", "obligation": f"{L.normal}._std_batched", "reason": f"{len(singular)} sqrt/div/log/pow applied to arguments that vanish at zero covariance (derivative 0/0 there): {singular[:3]}", "native": {"violated": False, "note": "structural side condition; jax.jacfwd of the std at a zero Cholesky row returns NaN"}})
    return [{"obligations": ob, "discharged": ob - len(viol), "by_backend": {"jaxpr-inspection": ob - len(viol)}, "violations": viol, "samples": samples,
             "functions": {"extra:stop_gradient frame + linearity (jaxpr inspection)": {"instances": ob, "obligations": ob, "discharged": ob - len(viol)}}}]
