"""C20 Malformed inputs are rejected loudly instead of being broadcast silently.

The validators are trace-time Python over shapes, tree structures, dtypes and types: they are invisible in a
jaxpr, so the jaxpr-based VC generator cannot reach them (no deductive verifier for Python is available).
This check is the *bounded stand-in* allowed by the brief: an exhaustive enumeration, over a stated finite
domain, of single-field corruptions of otherwise valid argument sets for the public entry points, times the
three factorisations. Nothing here is counted as proved; the level is 'exploration' and the evidence says so.
"""

from __future__ import annotations

import warnings

LEVEL = "exploration"
TRUSTED_BASE = ["native execution of the real entry points on concrete corrupted inputs (bounded stand-in, not a proof)"]
ASSUMPTIONS = [
    "bounded: the corruption domain is the finite one listed in coverage.rule; inputs outside it are not covered",
    "an input counts as rejected iff the call raises a Python exception (or emits the documented warning) before returning numbers",
]


def contracts():
    return []


def _corruptions(valid, kind):
    """Finite domain of single-field corruptions of a valid array-like / pytree argument."""
    import jax.numpy as jnp
    import numpy as np

    out = []
    a = valid
    if kind == "array":
        arr = jnp.asarray(a)
        out.append(("extra_axis", arr[None, ...]))
        out.append(("longer", jnp.concatenate([jnp.atleast_1d(arr).reshape(-1), jnp.ones((1,))]) if arr.ndim <= 1 else jnp.concatenate([arr, arr[:1]], axis=0)))
        if arr.ndim >= 1:
            out.append(("dropped_axis", arr.reshape(-1)[0]))
        if arr.size > 1:
            out.append(("length_one_broadcastable", arr.reshape(-1)[:1]))
            out.append(("shape_(1,1)_broadcastable", arr.reshape(-1)[:1].reshape(1, 1)))
        out.append(("wrapped_in_list", [arr]))
        out.append(("wrapped_in_dict", {"x": arr}))
        out.append(("string", "oops"))
    elif kind == "tree":
        import jax

        leaves, td = jax.tree_util.tree_flatten(a)
        l0 = leaves[0]
        out.append(("leaf_extra_axis", jax.tree_util.tree_unflatten(td, [l0[None, ...]] + leaves[1:])))
        out.append(("leaf_longer", jax.tree_util.tree_unflatten(td, [jnp.concatenate([jnp.atleast_1d(l0).reshape(-1), jnp.ones((1,))])] + leaves[1:])))
        out.append(("wrapped_in_tuple", (a,)))
        out.append(("missing_entry", list(a)[:-1] if isinstance(a, (list, tuple)) and len(a) > 1 else None))
        out.append(("extra_entry", list(a) + [jnp.ones((7,))] if isinstance(a, (list, tuple)) else None))
        out.append(("string", "oops"))
    return [(n, v) for n, v in out if v is not None or n == "string"]


def extra_checks(tier, seed):
    import jax
    import jax.numpy as jnp
    import numpy as np
    import probdiffeq.ivpsolve as ivpsolve
    import probdiffeq.probdiffeq as pd
    from probdiffeq._probdiffeq import ssm_impl_matfree

    jax.config.update("jax_enable_x64", True)
    cases = []  # (name, thunk, expectation)  expectation in {'raise', 'warn'}

    def add(name, thunk, expect="raise"):
        cases.append((name, thunk, expect))

    d = 2

    def use(ssm, prior):
        """First use of a constructed prior: initialise a solver, take one step, read mean and std."""
        slv = pd.solver(constraint=ssm.constraint_ode_ts0(ode), strategy=pd.strategy_filter())
        s0 = slv.init(t=0.0, u=prior, damp=0.0)
        s1 = slv.step(s0, dt=0.1, damp=0.0)
        return s1.u.mean, s1.u.std

    ssms = {"dense": pd.state_space_model_dense, "isotropic": pd.state_space_model_isotropic, "blockdiag": pd.state_space_model_blockdiag}
    tcoeffs = [jnp.ones((d,)) * (i + 1.0) for i in range(3)]

    def vf(y, /, *, t):
        return -y

    ode = pd.ode(vf)

    for tag, mk in ssms.items():
        ssm = mk()
        valid_scale = jnp.asarray(2.0) if tag == "isotropic" else jnp.ones((d,)) * 2.0
        # sanity: the valid call works
        prior = ssm.prior_wiener_integrated(tcoeffs, output_scale=valid_scale)
        # 1. base output scale
        for nm, bad in _corruptions(valid_scale, "array"):
            add(f"{tag}.prior_wiener_integrated(output_scale:{nm})", lambda ssm=ssm, bad=bad: use(ssm, ssm.prior_wiener_integrated(tcoeffs, output_scale=bad)))
        # 2. calibrated output scale in transition()
        valid_cal = jnp.ones((d,)) if tag == "blockdiag" else jnp.ones(())
        for nm, bad in _corruptions(valid_cal, "array"):
            if nm in ("string",):
                continue
            add(f"{tag}.transition(output_scale:{nm})", lambda prior=prior, bad=bad: prior.transition(dt=0.1, output_scale=bad))
        # 3. exactness flags
        valid_flags = [True, False, True] if tag == "isotropic" else [jnp.asarray([True, False])] * 3
        ssm.prior_wiener_integrated(tcoeffs, is_exact=valid_flags)
        bad_flags = [
            ("wrong_length_list", valid_flags[:-1]),
            ("int_dtype", [1, 0, 1] if tag == "isotropic" else [jnp.asarray([1, 0])] * 3),
            ("float_dtype", [1.0, 0.0, 1.0] if tag == "isotropic" else [jnp.asarray([1.0, 0.0])] * 3),
            ("wrong_leaf_shape", [jnp.asarray([True, False, True])] * 3),
            ("length_one_leaf_broadcastable", [jnp.asarray([True])] * 3),
            ("shape_(1,1)_leaf_broadcastable", [jnp.asarray([[False]])] * 3),
            ("one_length_one_leaf", [jnp.asarray([True]), False, True] if tag == "isotropic" else [jnp.asarray([True]), jnp.asarray([True, False]), jnp.asarray([True, False])]),
            ("string", "yes"),
        ]
        for nm, bad in bad_flags:
            add(f"{tag}.prior_wiener_integrated(is_exact:{nm})", lambda ssm=ssm, bad=bad: use(ssm, ssm.prior_wiener_integrated(tcoeffs, is_exact=bad)))
        # 4. Taylor-coefficient containers
        bad_tc = [
            ("array_instead_of_list", jnp.stack(tcoeffs)),
            ("leaves_of_different_shape", [tcoeffs[0], jnp.ones((d + 1,)), tcoeffs[2]]),
            ("leaves_of_different_structure", [tcoeffs[0], {"a": tcoeffs[1]}, tcoeffs[2]]),
            ("number", 3.0),
        ]
        for nm, bad in bad_tc:
            add(f"{tag}.prior_wiener_integrated(tcoeffs:{nm})", lambda ssm=ssm, bad=bad: use(ssm, ssm.prior_wiener_integrated(bad)))
        # 5. diffuse prior: std container
        valid_std = [jnp.asarray(0.1)] * 3 if tag == "isotropic" else [jnp.ones((d,)) * 0.1] * 3
        ssm.prior_wiener_integrated_diffuse(tcoeffs, valid_std)
        bad_std = [("array_instead_of_list", jnp.ones((3, d))), ("leaf_wrong_shape", [jnp.ones((d + 1,)) * 0.1] * 3 if tag != "isotropic" else [jnp.ones((d,)) * 0.1] * 3), ("shorter", valid_std[:-1])]
        for nm, bad in bad_std:
            add(f"{tag}.prior_wiener_integrated_diffuse(std:{nm})", lambda ssm=ssm, bad=bad: use(ssm, ssm.prior_wiener_integrated_diffuse(tcoeffs, bad)))
        # 6. constraints need ODE / residual descriptions
        add(f"{tag}.constraint_ode_ts0(plain function)", lambda ssm=ssm: ssm.constraint_ode_ts0(vf))
        add(f"{tag}.constraint_ode_ts1(plain function)", lambda ssm=ssm: ssm.constraint_ode_ts1(vf))
        add(f"{tag}.constraint_residual(plain function)", lambda ssm=ssm: ssm.constraint_residual(vf))
        add(f"{tag}.constraint_residual(ode instead of residual)", lambda ssm=ssm: ssm.constraint_residual(ode))
        # 7. losses: noise containers and posterior type
        strategy = pd.strategy_smoother_fixedinterval()
        solver = pd.solver(constraint=ssm.constraint_ode_ts0(ode), strategy=strategy)
        sol = ivpsolve.solve_fixed_grid(solver=solver)(ssm.prior_wiener_integrated(tcoeffs), grid=jnp.linspace(0.0, 0.3, 4))
        N = sol.t.shape[0]
        data = jnp.ones((N, d))
        valid_noise = jnp.ones((N,)) * 0.1 if tag == "isotropic" else jnp.ones((N, d)) * 0.1
        loss = pd.loss_lml_timeseries()
        loss(data, posterior=sol.solution_full.posterior, std=valid_noise)
        for nm, bad in _corruptions(valid_noise, "array"):
            add(f"{tag}.loss_lml_timeseries(std:{nm})", lambda bad=bad, loss=loss, data=data, sol=sol: loss(data, posterior=sol.solution_full.posterior, std=bad))
        add(f"{tag}.loss_lml_timeseries(posterior: filtering normal)", lambda loss=loss, data=data, sol=sol, valid_noise=valid_noise: loss(data, posterior=sol.u, std=valid_noise))
        add(f"{tag}.loss_lml_timeseries(posterior: smoothing solution not unpacked)", lambda loss=loss, data=data, sol=sol, valid_noise=valid_noise: loss(data, posterior=sol.solution_full, std=valid_noise))
        lt = pd.loss_lml_terminal_values()
        marg = jax.tree_util.tree_map(lambda s: s[-1], sol.u)
        valid_n1 = jnp.asarray(0.1) if tag == "isotropic" else jnp.ones((d,)) * 0.1
        lt(data[-1], marginals=marg, std=valid_n1)
        for nm, bad in _corruptions(valid_n1, "array"):
            add(f"{tag}.loss_lml_terminal_values(std:{nm})", lambda bad=bad, lt=lt, data=data, marg=marg: lt(data[-1], marginals=marg, std=bad))
        # 8. suitability warnings
        add(f"{tag}.solve_adaptive_save_at(fixed-interval smoother)", lambda solver=solver: ivpsolve.solve_adaptive_save_at(solver=solver, error=pd.error_residual_std(constraint=solver.constraint)), "warn")
        fp = pd.solver(constraint=ssm.constraint_ode_ts0(ode), strategy=pd.strategy_smoother_fixedpoint())
        add(f"{tag}.solve_fixed_grid(fixed-point smoother)", lambda fp=fp: ivpsolve.solve_fixed_grid(solver=fp), "warn")
        # 9. residual-based error estimate with a constraint whose shape differs from the state (jet-lifted ODE)
        lifted = ode.jet_lift(lift_by=1)
        est = pd.error_residual_std(constraint=ssm.constraint_ode_ts0(lifted))
        slv = pd.solver(constraint=ssm.constraint_ode_ts0(lifted), strategy=pd.strategy_filter())
        pr = ssm.prior_wiener_integrated(tcoeffs)

        def run_est(slv=slv, est=est, pr=pr):
            s0 = slv.init(t=0.0, u=pr, damp=0.0)
            s1 = slv.step(s0, dt=0.1, damp=0.0)
            return est.estimate_error_norm(est.init_error(), s0, s1, dt=0.1, atol=1e-3, rtol=1e-3, damp=0.0)

        add(f"{tag}.error_residual_std(constraint shape != state shape)", run_est)
        # 9b. the same with a one-dimensional state (a one-element reference must not be broadcast against a longer error)
        for lift in (1, 2):
            tc1 = [jnp.ones((1,)) * (i + 1.0) for i in range(2 + lift)]
            lifted1 = ode.jet_lift(lift_by=lift)
            for cname, mkc in (("ts0", ssm.constraint_ode_ts0), ("ts1", ssm.constraint_ode_ts1)):
                def run_est1(mkc=mkc, lifted1=lifted1, tc1=tc1, ssm=ssm):
                    con = mkc(lifted1)
                    est1 = pd.error_residual_std(constraint=con)
                    slv1 = pd.solver(constraint=con, strategy=pd.strategy_filter())
                    s0 = slv1.init(t=0.0, u=ssm.prior_wiener_integrated(tc1), damp=0.0)
                    s1 = slv1.step(s0, dt=0.1, damp=0.0)
                    return est1.estimate_error_norm(est1.init_error(), s0, s1, dt=0.1, atol=1e-3, rtol=1e-3, damp=0.0)

                add(f"{tag}.error_residual_std(d=1,lift_by={lift},{cname}: constraint shape != state shape)", run_est1)

    # dense only: exponential prior whose ODE order does not match the state
    dense = pd.state_space_model_dense()
    aut2 = pd.ode_autonomous_order_two(lambda y, dy: -y)
    add("dense.prior_exponential(order-2 ODE, three coefficients)", lambda: dense.prior_exponential(aut2, tcoeffs))
    add("dense.prior_exponential(order-1 ODE, three coefficients)", lambda: dense.prior_exponential(pd.ode_autonomous(lambda y: -y), tcoeffs))
    # ... also when the ODE description tolerates surplus coefficients (arbitrary-order wrapper slices what it needs)
    arb2 = pd.ode_autonomous_order_arbitrary(lambda y, dy: -y - dy, num_tcoeffs_in_args=2)

    def use_prior(prior):
        cond = prior.transition(dt=0.1, output_scale=jnp.ones(()))
        return cond.preconditioner_apply().A

    add("dense.prior_exponential(arbitrary-order wrapper of order 2, three coefficients)", lambda: use_prior(dense.prior_exponential(arb2, tcoeffs)))
    add("dense.prior_exponential(arbitrary-order wrapper of order 2, two coefficients + one diffuse derivative)", lambda: use_prior(dense.prior_exponential(arb2, tcoeffs[:2], diffuse_derivatives=1)))
    add("dense.prior_exponential_diffuse(arbitrary-order wrapper of order 2, three coefficients)", lambda: use_prior(dense.prior_exponential_diffuse(arb2, tcoeffs, [jnp.ones((d,)) * 0.1 for _ in range(3)])))
    add("dense.prior_exponential(arbitrary-order wrapper of order 3, two coefficients)", lambda: use_prior(dense.prior_exponential(pd.ode_autonomous_order_arbitrary(lambda y, dy, ddy: -y, num_tcoeffs_in_args=3), tcoeffs[:2])))
    # jet expansion needs an ODE description
    for nm, alg in [("unroll", pd.jetexpand_ode_unroll(num=2)), ("padded_scan", pd.jetexpand_ode_padded_scan(num=2)), ("via_jvp", pd.jetexpand_ode_via_jvp(num=2))]:
        add(f"jetexpand_ode_{nm}(plain function)", lambda alg=alg: alg(vf, [jnp.ones((d,))], t=0.0))
    # lift orders
    for lift in (-1, 3, 5):
        add(f"JetOde.jet_lift(lift_by={lift}) used with 3 coefficients", lambda lift=lift: ode.jet_lift(lift_by=lift).vector_field(jet_coords=tcoeffs, t=0.0))
    for bad in (1.0, "1", None):
        add(f"JetOde.jet_lift(lift_by={bad!r})", lambda bad=bad: ode.jet_lift(lift_by=bad))
    # Jacobian handlers: 2-d arrays with matching trailing dimension
    for hname in ("jacobian_materialize", "jacobian_monte_carlo_fwd", "jacobian_monte_carlo_rev"):
        h = getattr(pd, hname)()
        st = h.init_jacobian_handler()
        good = lambda x: jnp.tanh(x)
        x2 = jnp.ones((2, 3))
        for meth in ("materialize_dense", "calculate_trace_along_d", "calculate_diagonal_along_d"):
            getattr(h, meth)(good, x2, st)
            add(f"{hname}.{meth}(x 1-d)", lambda h=h, meth=meth, st=st: getattr(h, meth)(good, jnp.ones((3,)), st))
            add(f"{hname}.{meth}(x 3-d)", lambda h=h, meth=meth, st=st: getattr(h, meth)(good, jnp.ones((2, 3, 1)), st))
            add(f"{hname}.{meth}(output 1-d)", lambda h=h, meth=meth, st=st: getattr(h, meth)(lambda x: x[0], x2, st))
            add(f"{hname}.{meth}(trailing dimension differs)", lambda h=h, meth=meth, st=st: getattr(h, meth)(lambda x: x[:, :2], x2, st))
            add(f"{hname}.{meth}(output is a list)", lambda h=h, meth=meth, st=st: getattr(h, meth)(lambda x: [x], x2, st))
            add(f"{hname}.{meth}(x is a list)", lambda h=h, meth=meth, st=st: getattr(h, meth)(good, [x2], st))
    # too few ensemble members
    add("blockdiag_cholesky_from_ensembles(S < n)", lambda: ssm_impl_matfree.blockdiag_cholesky_from_ensembles(jnp.ones((2, 3, 2)), bias=False))

    viol, samples, n_ok = [], [], 0
    for name, thunk, expect in cases:
        outcome = None
        try:
            with warnings.catch_warnings(record=True) as w:
                warnings.simplefilter("always")
                res = thunk()
                if expect == "raise":
                    jax.block_until_ready(jax.tree_util.tree_leaves(res)) if res is not None else None
            outcome = "warned" if w else "returned"
        except Exception as e:  # noqa: BLE001
            outcome = "raised " + type(e).__name__
        ok = outcome.startswith("raised") if expect == "raise" else outcome == "warned"
        if ok:
            n_ok += 1
        else:
            viol.append({"contract": "extra:malformed_input", "obligation": name, "reason": f"expected {expect}, call {outcome}", "native": {"violated": True, "case": name, "outcome": outcome}})
        if len(samples) < 6:
            samples.append({"case": name, "expected": expect, "outcome": outcome})
    return [{
        "obligations": len(cases), "discharged": n_ok, "by_backend": {"native-enumeration(bounded)": n_ok}, "violations": viol, "samples": samples,
        "functions": {"extra:bounded enumeration of malformed inputs": {"instances": len(cases), "obligations": len(cases), "discharged": n_ok}},
        "n_cases": len(cases),
    }]


def coverage_extra(tier, results, extra_results):
    n = sum(e.get("n_cases", 0) for e in extra_results)
    return {
        "evaluations": n,
        "distinct_nontrivial": n,
        "exhaustive": True,
        "rule": "every listed entry point x every single-field corruption in the finite domain {extra axis, longer, dropped axis, wrapped in list/dict/tuple, wrong dtype (int/float for bool), missing/extra entry, wrong object type (string/number/plain function), wrong ODE order, inadmissible lift, too few ensembles} x {dense, isotropic, blockdiag} where applicable; a case is non-trivial iff it differs from a valid argument set in exactly one field; length-one / (1,1) arrays that would broadcast silently are part of the domain; all cases are distinct by construction (bounded stand-in, not a proof)",
    }


def replay(data):
    print("bounded case:", data.get("failed_obligation"), data.get("native_replay"))
    return 1
