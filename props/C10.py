"""C10 Taylor-coefficient initialisation returns the exact solution derivatives."""
from contracts import jets

LEVEL = "proof"


def contracts():
    return jets.contracts()
