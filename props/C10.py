"""C10 Taylor-coefficient initialisation returns the exact solution derivatives."""
from contracts import jets

LEVEL = "proof"


def contracts():
    from contracts import lifting

    # the residual-based routine relies on lifted residuals being the total time derivatives (explicit time dependence included)
    return jets.contracts() + [lifting.lift_contract("residual"), lifting.lift_contract("residual", via_max=True), lifting.residual_from_ode_contract()]
