"""C08 Gaussian conditional algebra is exact in every factorisation."""
from contracts import cholesky_util as CU
from contracts import gaussians as G
from contracts import normals as N

LEVEL = "proof"


def contracts():
    out = list(CU.ALL)
    for tag, cs in G.BY_LAYOUT.items():
        out += list(cs.values())
    for tag, cs in N.BY_LAYOUT.items():
        out += list(cs.values())
    return out
