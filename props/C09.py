"""C09 Prior transitions are the exact discretisation of their SDE and compose."""
from contracts import priors

LEVEL = "proof"


def contracts():
    return priors.contracts()
