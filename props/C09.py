"""C09 Prior transitions are the exact discretisation of their SDE and compose."""
from contracts import exp_priors, priors

LEVEL = "proof"


def contracts():
    return priors.contracts() + exp_priors.contracts()


def extra_checks(tier, seed):
    from contracts import pade_orders

    return pade_orders.extra_checks(tier, seed)
