#!/bin/sh
# usage: try_seed.sh <patch> <property ids...> : applies the patch to /repo, runs the checks, reverts.
P=$1; shift
git -C /repo apply "$P" || exit 9
for pid in "$@"; do
  cd /verif && ./check $pid --no-evidence > /tmp/try_seed_$pid.log 2>&1; echo "$pid exit=$? violations=$(grep -c '^VIOLATION' /tmp/try_seed_$pid.log) $(grep 'failed obl' /tmp/try_seed_$pid.log | head -2 | cut -c1-220)"
done
git -C /repo checkout -- .
git -C /repo status --short | head -3
