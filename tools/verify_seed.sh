#!/bin/sh
# usage: verify_seed.sh <seed-dir with patch.diff + demo.py> <scratch worktree>
# confirms: patch applies, demo exits non-zero with it and 0 without, repo test-suite passes with it.
SEED=$1; WT=$2
cd "$WT" || exit 9
git checkout -q -- . && git clean -fdq
echo "== demo on unchanged tree"; /venv/bin/python "$SEED/demo.py" >/dev/null 2>&1; echo "demo_unchanged_exit=$?"
git apply "$SEED/patch.diff" || { echo "patch does not apply"; exit 8; }
echo "== demo on changed tree"; /venv/bin/python "$SEED/demo.py" >/dev/null 2>&1; echo "demo_changed_exit=$?"
echo "== test suite on changed tree"
/venv/bin/python -m pytest -q -p no:cacheprovider -n 6 --timeout=900 2>&1 | tail -1
git checkout -q -- . && git clean -fdq
