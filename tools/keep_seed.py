#!/usr/bin/env python3
"""keep_seed.py <seed-id> <src-dir> <property> <verify-log> "<caught-by>" : copy a confirmed seeded change into /verif/seeded/."""
import json, os, shutil, sys
sid, src, prop, vlog, caught = sys.argv[1:6]
dst = os.path.join(os.path.dirname(os.path.dirname(os.path.abspath(__file__))), "seeded", sid)
os.makedirs(dst, exist_ok=True)
shutil.copy(os.path.join(src, "patch.diff"), dst)
shutil.copy(os.path.join(src, "demo.py"), dst)
m = json.load(open(os.path.join(src, "meta.json")))
log = open(vlog).read()
meta = {
    "property": prop,
    "summary": m.get("summary"),
    "needs": m.get("needs"),
    "files": m.get("files"),
    "origin": "independent sub-agent given only the property text and a scratch worktree",
    "confirmed_by_me": {
        "what_i_ran": "tools/verify_seed.sh <seed> <scratch worktree>: demo on unchanged tree, git apply patch.diff, demo on changed tree, full pytest suite on changed tree; then tools/try_seed.sh (apply to /repo, run ./check, git checkout)",
        "verify_log": [l for l in log.splitlines() if not l.startswith("==")],
    },
    "caught_by": caught,
}
json.dump(meta, open(os.path.join(dst, "meta.json"), "w"), indent=1)
print("kept", dst)
