#!/bin/sh
# usage: regress_seeds_parallel.sh [jobs] : like regress_seeds.sh, but in [jobs] scratch worktrees of /repo
# (checks run with VERIF_REPO pointing at the worktree), in parallel.  /repo itself is not touched.
J=${1:-3}
cd /verif || exit 9
map() { case "$1" in C03-a|C04-a|C05-a) echo C05;; C14-a) echo C02;; C04-b) echo C03;; C06-e) echo C06;; *) echo "${1%-*}";; esac; }
SEEDS=$(ls seeded)
i=0
for j in $(seq 1 $J); do
  git -C /repo worktree remove --force /tmp/wr$j 2>/dev/null
  git -C /repo worktree add --detach /tmp/wr$j HEAD -q
  : > /tmp/regress_par_$j.log
  : > /tmp/regress_par_list_$j
done
for s in $SEEDS; do i=$((i+1)); j=$(( (i % J) + 1 )); echo $s >> /tmp/regress_par_list_$j; done
for j in $(seq 1 $J); do
  (
    for s in $(cat /tmp/regress_par_list_$j); do
      pid=$(map $s)
      git -C /tmp/wr$j checkout -q -- .
      git -C /tmp/wr$j apply /verif/seeded/$s/patch.diff || { echo "$s: patch does not apply" >> /tmp/regress_par_$j.log; continue; }
      VERIF_REPO=/tmp/wr$j ./check $pid --no-evidence --jobs 6 > /tmp/regress_seed_$s.log 2>&1; ex=$?
      n=$(grep -c '^VIOLATION' /tmp/regress_seed_$s.log)
      if [ $ex -eq 1 ] && [ $n -gt 0 ]; then echo "$s: caught by $pid ($n violations)" >> /tmp/regress_par_$j.log; else echo "$s: NOT caught by $pid (exit $ex)" >> /tmp/regress_par_$j.log; fi
    done
    git -C /tmp/wr$j checkout -q -- .
  ) &
done
wait
cat /tmp/regress_par_*.log | sort
for j in $(seq 1 $J); do git -C /repo worktree remove --force /tmp/wr$j; rm -f /tmp/regress_par_list_$j; done
