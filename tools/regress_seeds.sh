#!/bin/sh
# usage: regress_seeds.sh [seed ids...] : applies every kept seeded change to /repo in turn, runs the check(s)
# that are recorded as catching it, expects exit 1 with a VIOLATION line, reverts.  /repo must be clean.
cd /verif || exit 9
[ -z "$(git -C /repo status --porcelain)" ] || { echo "/repo is not clean"; exit 9; }
map() { case "$1" in C03-a|C04-a|C05-a) echo C05;; C14-a) echo C02;; C04-b) echo C03;; C06-e) echo C06;; *) echo "${1%-*}";; esac; }
SEEDS="$@"; [ -n "$SEEDS" ] || SEEDS=$(ls seeded)
rc=0
for s in $SEEDS; do
  pid=$(map $s)
  git -C /repo apply /verif/seeded/$s/patch.diff || { echo "$s: patch does not apply"; rc=1; continue; }
  ./check $pid --no-evidence > /tmp/regress_seed_$s.log 2>&1; ex=$?
  git -C /repo checkout -- .
  n=$(grep -c '^VIOLATION' /tmp/regress_seed_$s.log)
  if [ $ex -eq 1 ] && [ $n -gt 0 ]; then echo "$s: caught by $pid ($n violations)"; else echo "$s: NOT caught by $pid (exit $ex)"; rc=1; fi
done
exit $rc
