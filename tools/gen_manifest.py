#!/usr/bin/env python3
"""Regenerates MANIFEST.json from the table below (kept in one place so it stays valid)."""
import json, os

HERE = os.path.dirname(os.path.dirname(os.path.abspath(__file__)))
TECH = "contract-based deductive verification: VCs generated from the jaxpr of the real function, callees replaced by their contracts, certificates found by exact polynomial reduction and re-checked by z3/cvc5"

CHECKS = {
    "C08": dict(
        category="proof",
        text="Every conditional/normal operation of the three factorisations is verified against the dense textbook formulas (inverse-free) for all real values of all entries, per listed shape instance; callers are checked against callee contracts.",
        note="shape instances are bounded (values are not); real arithmetic; kernel contracts for qr_r/solve_triu/solve_tril are axioms (validated numerically each run); solve_triu non-singularity is an inherited precondition",
        design_ref="DESIGN.md section 4 (C08)",
    ),
}

CHECKS["C02"] = dict(
    category="proof",
    text="solver.step / solver_mle.step / solver_dynamic.step are verified to be exactly one textbook EKF step (predict with the prior transition, linearise at the predicted mean with the documented Jacobian structure, condition on zero data with damping) for every state, step size, damping and vector field (uninterpreted f with uninterpreted Jacobian), per listed configuration; smoother steps additionally carry the RTS gain.",
    note="configurations and (q,d) shapes are enumerated (values are not bounded); gain non-singularity (solve_triu) is an inherited precondition; Kalman gain is a ghost witness from the memoised revert contract; grids follow by induction over fold(step) (solve_fixed_grid scan body); real arithmetic",
    design_ref="DESIGN.md section 4 (C02)",
)

NOT_APPLICABLE = {
    "C01": "global accuracy / convergence order against the true ODE solution is not a postcondition of one call nor a data-structure invariant; no contract over the code implies it (DESIGN section 4, C01)",
}

def main():
    props = [json.loads(l)["id"] for l in open(os.path.join(HERE, "properties.jsonl"))]
    checks = []
    for pid in props:
        if pid not in CHECKS:
            continue
        c = CHECKS[pid]
        checks.append({
            "property_id": pid,
            "quick_cmd": f"./check {pid} --tier quick",
            "thorough_cmd": f"./check {pid} --tier thorough",
            "evidence_file": f"/verif/evidence/{pid}.json",
            "replay_cmd_template": f"./check {pid} --replay {{path}}",
            "engine": "vcgen",
            "level_claimed": {"category": c["category"], "text": c["text"], "design_ref": c["design_ref"]},
            "level_note": c["note"],
            "technique": c.get("technique", TECH),
        })
    na = []
    for pid in props:
        if pid in CHECKS:
            continue
        na.append({"property_id": pid, "reason": NOT_APPLICABLE.get(pid, "check not built yet in this round (planned: see DESIGN.md section 4); not claimed")})
    m = {
        "version": 1,
        "setup_cmd": "sh ./setup.sh",
        "hooks": {
            "guard": "PROBDIFFEQ_VERIF",
            "enable": "no hooks: contracts live in /verif and are attached to the freshly imported repo modules at run time; /repo is not instrumented",
            "baseline_off_cmd": "cd /repo && /venv/bin/python -m pytest -ra -q -p no:cacheprovider --timeout=900 --continue-on-collection-errors",
            "source_commits": [],
            "add_only": True,
        },
        "engines": [{
            "name": "vcgen",
            "path": "/verif/vcgen",
            "serves_properties": sorted(CHECKS),
            "kind_free_text": "verification-condition generator for JAX programs: jaxpr extraction of the real functions, exact symbolic evaluation over the reals, modular callee contracts as opaque primitives, certificate search + z3/cvc5",
        }],
        "checks": checks,
        "not_applicable": na,
        "notes": "See DESIGN.md. known_findings.txt lists recorded findings and repaired defects (fix: commits in /repo).",
    }
    json.dump(m, open(os.path.join(HERE, "MANIFEST.json"), "w"), indent=1)
    print("wrote MANIFEST.json with", len(checks), "checks,", len(na), "not_applicable")

if __name__ == "__main__":
    main()
