#!/usr/bin/env python3
"""Regenerates MANIFEST.json from the table below (kept in one place so it stays valid)."""
import json, os

HERE = os.path.dirname(os.path.dirname(os.path.abspath(__file__)))
TECH = "contract-based deductive verification: VCs generated from the jaxpr of the real function, callees replaced by their contracts, certificates found by exact polynomial reduction and re-checked by z3/cvc5"

CHECKS = {
    "C08": dict(
        category="proof",
        text="Every conditional/normal operation of the three factorisations is verified against the dense textbook formulas (inverse-free) for all real values of all entries, per listed shape instance; callers are checked against callee contracts.",
        note="shape instances are bounded (values are not); real arithmetic; kernel contracts for qr_r/solve_triu/solve_tril are axioms (validated numerically each run); solve_triu non-singularity is an inherited precondition",
        design_ref="DESIGN.md section 4 (C08)",
    ),
}

CHECKS["C02"] = dict(
    category="proof",
    text="solver.step / solver_mle.step / solver_dynamic.step are verified to be exactly one textbook EKF step (predict with the prior transition, linearise at the predicted mean with the documented Jacobian structure, condition on zero data with damping) for every state, step size, damping and vector field (uninterpreted f with uninterpreted Jacobian), per listed configuration; smoother steps additionally carry the RTS gain. solver*.init is verified with and without constraint_init: the initial state is the prior's initial random variable, or its exact Gaussian conditioning on the linearised initial constraint (least-squares gain), with the documented auxiliary state (MLE running scale = whitened RMS of the initial innovation, count 1).",
    note="configurations and (q,d) shapes are enumerated (values are not bounded); gain non-singularity (solve_triu) is an inherited precondition; Kalman gain is a ghost witness from the memoised revert contract; solve_fixed_grid is verified to be init + one solver.step per grid interval (dt = increment, caller's damp) + at-t1 hand-over, with an abstract solver, per grid length (1 and 3 intervals quick; 2 and 6 thorough); for the least-squares gain of the initial update a non-singular innovation factor is an inherited precondition (ghost inverse), under which the least-squares residual vanishes (left-cancellation lemma); real arithmetic",
    design_ref="DESIGN.md section 4 (C02)",
)

CHECKS["C06"] = dict(
    category="proof",
    text="The rejection loop, the per-checkpoint loop and the scan over checkpoints of the real RejectionLoop / solve_adaptive_save_at are verified with loop invariants (Hoare rules executed on the real body) against abstract solver/error/controller contracts, for every accept/reject history, checkpoint layout, eps, dt0, clip on/off; the two real controllers are verified against the abstract Control contract with symbolic parameters.",
    note="termination is not claimed; solver/error/controller are abstract objects constrained only by their contracts (real solver.step frame: C02; real interpolation frames: C05; real controllers: here); test_util.solve_adaptive_save_every_step (native Python while over concrete values, outside the reach of the jaxpr-based generator) is covered only by a bounded stand-in, never counted as proved: 36 (quick) / 120 (thorough) native runs with a mock solver and piecewise-constant admissible step size x real controllers x clip on/off x dt0, checking the C06 clauses on the saved sequence; scalar real arithmetic; power atoms use monotonicity axioms",
    design_ref="DESIGN.md section 4 (C06)",
)
CHECKS["C07"] = dict(
    category="proof",
    text="estimate_error_norm of both estimators is verified to return norm^(-1/(q+1)) of the calibrated residual/state standard deviation scaled by dt^n/n! with reference max(|u_prev|,|u_new|), with cached or re-evaluated linearisation exactly as configured, and to be independent of the previous covariance and of backward models; both error norms are verified against their definitions.",
    note="quantities are characterised by squares and signs (std^2 = diag cov, sigma^2 K = |w|^2) rather than closed-form roots; error norm is abstract inside the estimator contract; invariance of the local error quantity under the base scale is part of the machine-checked scale-equivariance lemma (contracts/lemmas.py); instances include second-order ODEs, error_per_unit_step, derivative_idx >= 1, pytree-structured states and a shared error value against a d-dimensional reference (isotropic); n! is taken from the repo's own factorial (float literal)",
    design_ref="DESIGN.md section 4 (C07)",
)
CHECKS["C05"] = dict(
    category="proof",
    text="interpolate_fwd / interpolate_fwd_at_t1 of the real solver are verified for the three strategies and factorisations: the reported value is the exact Gaussian prediction from the left state, the state handed back for time stepping keeps the right state's marginal and all bookkeeping, and (with C02/C06/C07 frame clauses) stepping, error estimation and control do not depend on backward models or checkpoints.",
    note="independence of the checkpoint set is the composition of these contracts with the C06 invariants and the C09 composition law (Chapman-Kolmogorov) -- that last composition step is a lemma about the spec, stated in DESIGN.md, not a separate machine-checked obligation. Also under contract: offgrid_marginals (searchsorted index resolved exactly for a query strictly inside step k; filter = prediction from the preceding state, fixed-interval smoother = RTS interpolation) and solve_adaptive_terminal_values (= last entry of the checkpointed routine on [t0,t1] with all arguments passed through)",
    design_ref="DESIGN.md section 4 (C05)",
)

CHECKS["C09"] = dict(
    category="proof",
    text="Integrated Wiener priors: cholesky_hilbert, system_matrices_1d_iwp, preconditioner_taylor and transition() of the three factorisations (priors built by the real constructors inside the trace) are verified exactly: after removing the preconditioner the transition is (exp(hN) (x) I, 0, sigma^2 base^2 (x) exact Gramian) for all h>0, scales; transitions over h1 then h2 compose to h1+h2.",
    note="orders q are enumerated (quick q<=3, thorough q<=10), d<=2; sqrt(odd) are algebraic atoms, qr_r is a kernel axiom. Exponential / OU / Matern priors (dense): transition() with the prior built by the real constructor is verified to be (EXPM(hA), 0, sigma^2 GRAMQ(hA, h B B^T)) with the documented companion drift and B = e_q (x) diag(base), where EXPM / GRAMQ are uninterpreted and exp_gram_cholesky is abstracted by its contract (two similarity identities of EXPM / GRAMQ under a diagonal change of basis are axioms); its doubling step is verified; the Pade / Legendre initialisers are checked against table-independent order conditions on the polynomials extracted from the real init (1x1 symbolic drift). the scaling-and-squaring loop of exp_gram_cholesky is verified with a while rule for every trip count (result = exact doubling recursion applied ceil(max(s,0)) times to the initialiser's output, ghost state (count, Phi, G); sign fix keeps the Gramian), and the scaling step hands (A 2^-s, B 2^-s/2) to the initialiser (ceil is an atom with bracketing axioms, integrality not modelled). NOT proved: the accuracy 'to working precision' of the truncated approximations (undecidable in real arithmetic); that the doubling recursion applied to exact (e^{A/2^s}, G(A/2^s)) gives (e^A, G(A)) is the semigroup / Gramian-additivity lemma, stated",
    design_ref="DESIGN.md section 4 (C09)",
)
CHECKS["C10"] = dict(
    category="proof",
    text="jetexpand_ode_unroll / padded_scan / via_jvp / doubling_unroll are verified to return the exact solution derivatives for every polynomial vector field (symbolic coefficients, explicit time dependence) of the enumerated degree/dimension/order, every initial value and time, flat and pytree states; oracle: total-derivative recursion via nested jax.jvp. jetexpand_residual: what is handed to the constrained least-squares solver and what is done with its answer.",
    note="polynomial degree/dimension/number of coefficients are enumerated per instance; jax.experimental.jet and jax.jvp of polynomial primitives are traced by real JAX (trusted); jetexpand_residual is verified against an abstract least-squares solver obeying the contract proved for the real Gauss-Newton routine in C19 (returned point = mean + L L^T w): given coefficients come back unchanged and are not degrees of freedom, every added coefficient is one, the objective is the residual of the leading coefficients at the requested time; that a converged solve returns the true coefficients when the constraints determine them is the composition with C19 (exit justified) and C11 (lifted residual = total derivatives), stated",
    design_ref="DESIGN.md section 4 (C10)",
)

CHECKS["C13"] = dict(
    category="proof",
    text="MarkovSequence.sample is verified for the three factorisations, backward and forward sequences and batched sample shapes: the result is affine in the standard-normal draws (symbols of the random.normal kernel, one per PRNG key and entry), equals the marginal means when the draws are zero, and the Gram matrix of its linear part equals the joint covariance defined by the Markov factorisation (including cross-covariances and independence across dimensions and across batched samples).",
    note="N (number of conditionals), n, d are enumerated; PRNG key derivation (split) is executed concretely with jax.random.split (the repository's random wrappers are under delegation contracts, contracts/backend.py), random.normal is a kernel axiom (fresh symbol per key/entry, same key => same draw); relation of the backward factorisation to the smoothing posterior is C03",
    design_ref="DESIGN.md section 4 (C13)",
)

CHECKS["C17"] = dict(
    category="proof",
    text="The materialising handler returns value, dense Jacobian, per-dimension diagonal blocks and the sum over dimensions exactly; the forward- and reverse-mode Hutchinson handlers return the exact value and an estimate whose exact expectation over all sign probes (computed symbolically: v^2=1, E[v]=0) equals those blocks, in the documented layout, with the key advanced to split(key)[0] and probes drawn from split(key)[1]; for an uninterpreted map with uninterpreted Jacobian, every evaluation point.",
    note="(n_in,n_out,d) and num_probes enumerated; jax.linearize/vjp/jacfwd are traced by real JAX; rademacher is a kernel axiom (v^2=1, one symbol per key and entry); input validation (_verify_fun_and_x) is trace-time Python, covered under C20",
    design_ref="DESIGN.md section 4 (C17)",
)
CHECKS["C18"] = dict(
    category="proof",
    text="dt0 equals scale|u0|/(|f0|+nugget) and dt0_adaptive equals the two-stage Hairer-Norsett-Wanner heuristic (norm convention of the cited reference implementation) and is strictly positive for every input, including zero values, zero derivatives and guard branches (z3 case analysis over the where-guards with guarded division axioms); uninterpreted vector field.",
    note="known finding: dt0 returns 0 for u0 = 0 (listed in known_findings.txt); 'lets an adaptive solve start and finish' is reduced to dt0 > 0 (the C06 precondition) -- termination is not claimed; finiteness is trivial in real arithmetic given non-zero divisors",
    design_ref="DESIGN.md section 4 (C18)",
)
CHECKS["C19"] = dict(
    category="proof",
    text="lstsq_constrained_gauss_newton: loop rule on the real body for all iteration counts -- every exit is justified by one of the three documented reasons, statistics are truthful, the displacement from the mean lies in range(L L^T J^T) of the last linearisation (singular L included); for affine constraints one iteration of the real body lands on the Gaussian conditional mean and a second does not move; taylor_point_maximum_a_posteriori starts at and weights by the given rv.",
    note="(D,m) enumerated; lstsq_svd is a kernel axiom (normal equations + row space); feasibility needs a ghost inverse of the innovation covariance (full row rank); convergence within the budget for nonlinear constraints is not claimed; requires tol < 1 (the initial unit increment must not look converged); the 'no more progress' exit only counts after at least one iteration; use inside DenseResidual.linearize / jetexpand_residual is by composition with C02/C11 contracts",
    design_ref="DESIGN.md section 4 (C19)",
)

CHECKS["C03"] = dict(
    category="proof",
    text="Smoother steps carry the RTS gain (step contracts: G P^- = P Phi^T, xi = m - G m^-, Xi = P - G P^- G^T; merged for the fixed-point smoother); MarkovSequence.evaluate_marginals and Smoother.finalize are verified to return the backward-recursion marginals started from the law at the final output time, calibrated, with filtering marginals stacked; the inductive step of 'smoothed <= filtered' is proved with a sum-of-squares ghost factor; solve_fixed_grid is verified (induction rule over the grid scan) to hand over a final state whose terminal smoothing marginal equals the filtering marginal at the final grid point.",
    note="N, n, d enumerated; 'RTS recursion = joint smoothing posterior of the linearised model': the one-datum case is machine-checked as a lemma (filtering + one RTS step = conditioning of the joint Gaussian, inverse-free with ghost gains, contracts/lemmas.py); the extension to longer horizons is induction with the Markov property, stated; agreement of fixed-interval and fixed-point smoothing follows from both being proved against the same specification plus the C09 composition law; solve_adaptive_save_every_step (native Python loop) is not covered",
    design_ref="DESIGN.md section 4 (C03)",
)
CHECKS["C04"] = dict(
    category="proof",
    text="MLE mode: per step, running'^2 (n+1) = running^2 n + term^2 with term the whitened RMS of the innovation under the EKF innovation covariance (ghost: C w = r, C C^T = S); at the end scale^2 N = running^2 (with correction) or scale = running, and returned covariances are scale^2 times the unit-scale ones (per dimension for block-diag). Dynamic mode: the per-step scale is the whitened RMS of the residual of the mean-only prediction, the process noise is scaled by it, and it is what is reported. Uncalibrated: scale one.",
    note="equivariance under the base scale c (means equal, scale/c, calibrated covariances equal, accepted steps equal) follows from the homogeneity of the proved EKF/estimator formulas for damp=0 together with C06/C07 -- the homogeneity of the EKF/estimator specification is machine-checked as a lemma (contracts/lemmas.py: scale_equivariance_of_the_ekf_specification); its composition with the step contracts over a whole solve is induction over fold(step), stated; smoother finalisation is C03",
    design_ref="DESIGN.md section 4 (C04)",
)

CHECKS["C11"] = dict(
    category="proof",
    text="JetOde.jet_lift / JetResidual.jet_lift: for generic polynomial right-hand sides and residuals (symbolic coefficients, differential order 1..3, explicit time dependence) and arbitrary curve coefficients, the outputs of the lifted function are exactly the 0..m-th total time derivatives along the curve, with the documented index bookkeeping; residual_from_ode is u^(k) - f for an uninterpreted f; residual_from_stack evaluates each part on its own coefficients; linearize() of TS0/TS1 constraints reproduces value and (full / per-dimension / trace-averaged) Jacobian (cached_linearisation clauses of the step contracts).",
    note="degree/dimension/lift enumerated per instance (lift <= 2 quick, <= 5 thorough); lift_by admissibility (ValueError/TypeError) is trace-time Python: checked by exhaustive enumeration over a stated finite domain, labelled bounded and not counted as proved",
    design_ref="DESIGN.md section 4 (C11)",
)
CHECKS["C12"] = dict(
    category="proof",
    text="logpdf of the three normals is the Gaussian log-density through a triangular factor of the covariance; loss_lml_terminal_values is the log-density of the datum under N(E_i m, E_i P E_i^T + diag(std^2)); loss_lml_timeseries is the sum (or mean) over time of log p(y_k | y_{k+1..N}) obtained by backward Kalman filtering along the backward Markov factorisation with per-time (and per-dimension) noise -- stated stage-wise (prediction, innovation, gain, update), inverse-free with ghost gains.",
    note="N, n, d, tcoeff_index enumerated; 'sum of conditional log-densities = joint log-density under the smoothing posterior plus noise' is the chain rule (lemma about the specification, assumed); |w|^2 = (u-m)^T cov^-1 (u-m) and det cov = (prod C_ii)^2 for a triangular factor C are machine-checked lemmas (n <= 3 quick, 4 thorough; the logarithm rule log x^2 = 2 log|x| is left to mathematics); singular innovation covariances (lstsq path) are not covered: the contract is verified with solve_triu",
    design_ref="DESIGN.md section 4 (C12)",
)

CHECKS["C15"] = dict(
    category="proof",
    text="Layout part: for nested dict / tuple / namedtuple states with leaves of rank 0..3, flatten_tree and unflatten_array of the three factorisations are mutually inverse with the documented ravel orders (coefficient-major dense, (n,d) isotropic, (d,n) block-diagonal), and means / standard deviations come back in the caller's structure with the caller's values (pure data movement, decided exactly by index tracing). Permutation: a machine-checked lemma about the specification -- the first-order EKF step for the permuted problem (v = Pi u, field Pi f(Pi^T v, t), uninterpreted f, Jacobian obtained by differentiating the permuted field) started from the permuted state has the permuted gain / whitening witnesses, permuted mean and covariance and the same quasi-MLE term; with the C02 step contracts and gain uniqueness (C14 lemma) the dense solver is permutation-equivariant step by step.",
    note="the jit / vmap clauses are covered only by a bounded native stand-in (never counted as proved): adaptive solves of 3 factorisations x filter / fixed-point smoother with batch members needing 12 / 27 / 44 steps, compiled vs uncompiled and batched vs one at a time; NOT covered by a contract: the jit / vmap clauses -- equality of jit(f) / vmap(f) with f is JAX's specification of its transformations, not a property of a function in /repo; what the other checks establish is that every function under contract extracts to a closed, effect-free jaxpr from abstract inputs (the precondition under which JAX's contract applies). Time-axis prepending is part of the C04 userfriendly_output contracts.",
    design_ref="DESIGN.md section 4 (C15), 8.4",
)
CHECKS["C16"] = dict(
    category="proof",
    text="The only hand-written differentiation rule, qr_r_jvp, is verified against the derivative of the kernel contract of qr_r (R upper triangular, R^T R = M^T M): the differentiated Gram identity holds; upper-triangularity of the tangent fails (known finding). stop_gradient occurs in the extracted jaxprs of the steps / step attempts only at the two documented places and only when the flags request it; the custom rule is linear in the tangent and built from transposable primitives (forward = reverse). Side condition for finite derivatives at exact (zero-covariance) states: the std computations of the three normals apply no sqrt / division / log / power to a quantity that vanishes there (decided on the symbolic evaluation of the real code; found and fixed a defect in the isotropic and block-diagonal models).",
    note="JAX's differentiation of standard primitives (and hence 'derivatives equal directional derivatives' away from the custom rule) is trusted, not proved; finiteness side conditions are discharged for the std computations only (not for lstsq_svd inside the time-series loss or for the norms of the error estimate); reduced QR (jnp.linalg.qr) is a kernel axiom (Q R = M, Q^T Q = I)",
    design_ref="DESIGN.md section 4 (C16), 8.5",
)
CHECKS["C20"] = dict(
    category="exploration",
    technique="bounded stand-in (not a proof): exhaustive native enumeration of single-field corruptions over a stated finite domain; the validators are trace-time Python outside the reach of the jaxpr-based VC generator",
    text="Bounded stand-in allowed by the brief, never counted as proved: every listed public entry point x every single-field corruption of a valid argument set in a stated finite domain x three factorisations is executed natively and must raise at construction or first use (or emit the documented warning).",
    note="the validators are trace-time Python over shapes / tree structures / dtypes / types and do not appear in any jaxpr, so no obligation can be generated for them with the tooling present; the domain is finite and listed in the evidence (coverage.rule); one known finding (isotropic residual error estimate, shape coincidence)",
    design_ref="DESIGN.md section 4 (C20), 8.4",
)

CHECKS["C14"] = dict(
    category="proof",
    text="(i) Each factorisation's step is exactly the textbook EKF with its documented structure (C02 step contracts for the configurations C14 names: TS0 and TS1, uncalibrated / MLE / dynamic); (ii) machine-checked lemmas about the specification: the EKF update commutes with the embeddings isotropic -> dense (P (x) I, h (x) I: zeroth order, or Jacobian a multiple of the identity) and block-diagonal -> dense (decoupled linearisations), MLE terms agree (dense = isotropic = mean over dimensions of block-diagonal), and the gain is unique for a non-singular innovation covariance.",
    note="the lemmas are about specification code in /verif (contracts/lemmas.py), not about repository code; the link from 'steps agree' to 'whole solves agree' is induction over fold(step) (fixed grids) and, for adaptive dense/isotropic runs, equality of the error quantities (C07) through the C06 invariants -- that composition is stated, not machine-checked; shapes n<=3, d<=3 enumerated",
    design_ref="DESIGN.md section 4 (C14), 8.4",
)

NOT_APPLICABLE = {
    "C01": "global accuracy / convergence order against the true ODE solution is not a postcondition of one call nor a data-structure invariant; no contract over the code implies it (DESIGN section 4, C01)",
}

def main():
    props = [json.loads(l)["id"] for l in open(os.path.join(HERE, "properties.jsonl"))]
    checks = []
    for pid in props:
        if pid not in CHECKS:
            continue
        c = CHECKS[pid]
        checks.append({
            "property_id": pid,
            "quick_cmd": f"./check {pid} --tier quick",
            "thorough_cmd": f"./check {pid} --tier thorough",
            "evidence_file": f"/verif/evidence/{pid}.json",
            "replay_cmd_template": f"./check {pid} --replay {{path}}",
            "engine": "vcgen",
            "level_claimed": {"category": c["category"], "text": c["text"], "design_ref": c["design_ref"]},
            "level_note": c["note"],
            "technique": c.get("technique", TECH),
        })
    na = []
    for pid in props:
        if pid in CHECKS:
            continue
        na.append({"property_id": pid, "reason": NOT_APPLICABLE.get(pid, "check not built yet in this round (planned: see DESIGN.md section 4); not claimed")})
    m = {
        "version": 1,
        "setup_cmd": "sh ./setup.sh",
        "hooks": {
            "guard": "PROBDIFFEQ_VERIF",
            "enable": "no hooks: contracts live in /verif and are attached to the freshly imported repo modules at run time; /repo is not instrumented",
            "baseline_off_cmd": "cd /repo && /venv/bin/python -m pytest -ra -q -p no:cacheprovider --timeout=900 --continue-on-collection-errors",
            "source_commits": [],
            "add_only": True,
        },
        "engines": [{
            "name": "vcgen",
            "path": "/verif/vcgen",
            "serves_properties": sorted(CHECKS),
            "kind_free_text": "verification-condition generator for JAX programs: jaxpr extraction of the real functions, exact symbolic evaluation over the reals, modular callee contracts as opaque primitives, certificate search + z3/cvc5",
        }],
        "checks": checks,
        "not_applicable": na,
        "notes": "See DESIGN.md. known_findings.txt lists recorded findings and repaired defects (fix: commits in /repo).",
    }
    json.dump(m, open(os.path.join(HERE, "MANIFEST.json"), "w"), indent=1)
    print("wrote MANIFEST.json with", len(checks), "checks,", len(na), "not_applicable")

if __name__ == "__main__":
    main()
