#!/bin/sh
# Builds /verif/.venv offline: python3.12 venv that sees /venv's site-packages (jax, repo deps)
# plus z3-solver / cvc5 / sympy from the offline wheelhouse.
set -e
cd "$(dirname "$0")"
if [ -x .venv/bin/python ] && .venv/bin/python -c "import z3, cvc5, jax, sympy" 2>/dev/null; then
  echo "setup: .venv already usable"; exit 0
fi
rm -rf .venv
/venv/bin/python -m venv .venv
SP=$(.venv/bin/python -c "import sysconfig; print(sysconfig.get_paths()['purelib'])")
echo "import site; site.addsitedir('/venv/lib/python3.12/site-packages')" > "$SP/_venv_overlay.pth"
PIP_NO_INDEX=1 .venv/bin/python -m pip install --quiet --no-index --find-links /opt/veriftools/wheels z3-solver cvc5 sympy jsonschema
.venv/bin/python -c "import z3, cvc5, jax, sympy, jsonschema; print('setup ok', z3.get_version_string(), jax.__version__)"
