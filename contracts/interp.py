"""Contracts for ProbabilisticSolver.interpolate_fwd / interpolate_fwd_at_t1 (C05, frame part for C06)."""

import jax
import jax.numpy as jnp
import numpy as np

from vcgen.harness import Contract, Instance, define, eq, ge, gt, holds

from . import gaussians as G
from . import ivp
from .gaussians import cov, law

MOD = "probdiffeq._probdiffeq.solvers"


def _same(prefix, a, b):
    return [eq(f"{prefix}{k}", x, y) for k, (x, y) in enumerate(zip(jax.tree_util.tree_leaves(a), jax.tree_util.tree_leaves(b)))]


def _frame_fields(prefix, new, old):
    cl = [eq(f"{prefix}.num_steps", new.num_steps, old.num_steps)]
    cl += _same(f"{prefix}.u", new.u, old.u)
    cl += _same(f"{prefix}.output_scale", new.output_scale, old.output_scale)
    cl += _same(f"{prefix}.auxiliary", new.auxiliary, old.auxiliary)
    cl += _same(f"{prefix}.fun_evals", new.fun_evals, old.fun_evals)
    cl += _same(f"{prefix}.prior", new.prior, old.prior)
    return cl


def _two_states(cfg, rng):
    solver, s0 = ivp.make_state(cfg, rng)
    _, s1 = ivp.make_state(cfg, rng, solver=solver, ssm=None) if False else (None, None)
    s0 = ivp.tie_u(ivp.randomise(s0, rng, positive=ivp.positive_leaves(s0)))
    s1 = ivp.tie_u(ivp.randomise(s0, rng, positive=ivp.positive_leaves(s0)))
    return solver, s0, s1


def interpolate_fwd_contract(cfg: ivp.Cfg):
    L = cfg.L

    def wrap(target):
        def f(self, *, h1, h2, interp_from, interp_to):
            import dataclasses

            t = interp_from.t + h1
            interp_to = dataclasses.replace(interp_to, t=t + h2)
            return target(self, t=t, interp_from=interp_from, interp_to=interp_to)

        return f

    def ensures(res, self, *, h1, h2, interp_from, interp_to):
        import dataclasses

        import probdiffeq.backend.linalg as LA

        t = interp_from.t + h1
        interp_to = dataclasses.replace(interp_to, t=t + h2)
        interpolated, ir = res
        cl = [
            eq("interpolated.t", interpolated.t, t), eq("step_from.t", ir.step_from.t, interp_to.t), eq("interp_from.t", ir.interp_from.t, t),
            eq("interpolated.num_steps", interpolated.num_steps, interp_to.num_steps),
        ]
        cl += _frame_fields("step_from_keeps_right_state", ir.step_from, interp_to)
        cl += _frame_fields("interp_from_keeps_left_state", ir.interp_from, interp_from)
        cl += _same("interpolated.output_scale", interpolated.output_scale, interp_to.output_scale)
        cl += _same("interpolated.prior", interpolated.prior, interp_to.prior)
        # the marginal carried on is the one of the right-hand state (time stepping does not see checkpoints)
        fm_new, fm_old = ivp.filtering_marginal(ir.step_from), ivp.filtering_marginal(interp_to)
        cl += [eq("step_from_marginal_mean_unchanged", fm_new.mean_flat, fm_old.mean_flat), eq("step_from_marginal_chol_unchanged", fm_new.cholesky_flat, fm_old.cholesky_flat)]
        # value: exact Gaussian prediction from the left state over t - t0 with the right state's output scale
        cond = interp_from.prior.transition(dt=t - interp_from.t, output_scale=interp_to.output_scale)
        left = ivp.filtering_marginal(interp_from)
        Phi, m_pred, P_pred = ivp.predict_spec(cfg, left.mean_flat, cov(L, left), cond)
        cl += [eq("interpolated_mean_is_prediction_from_left_state", interpolated.u.mean_flat, m_pred),
               eq("interpolated_cov_is_prediction_from_left_state", cov(L, interpolated.u), P_pred)]
        # the left reference for later interpolations is the interpolated marginal ...
        fm_left = ivp.filtering_marginal(ir.interp_from)
        cl += [eq("interp_from_marginal_is_interpolated_mean", fm_left.mean_flat, m_pred), eq("interp_from_marginal_is_interpolated_cov", cov(L, fm_left), P_pred)]
        if cfg.strategy == "fixedpoint":
            # ... with a unit backward model: the interpolated point is the new target of the fixed-point smoother
            A_, b_, Q_ = law(L, ir.interp_from.solution_full.conditional)
            eye = jnp.broadcast_to(jnp.eye(A_.shape[-1]), A_.shape)
            cl += [eq("interp_from_backward_model_is_identity", A_, eye), eq("interp_from_backward_offset_zero", b_, 0.0), eq("interp_from_backward_noise_zero", Q_, 0.0)]
        if cfg.strategy != "filter":
            # backward model of the right state now points to t: p(x_t | x_t1) from the prior over t1 - t
            cond2 = interp_from.prior.transition(dt=interp_to.t - t, output_scale=interp_to.output_scale)
            Phi2, b2, Q2 = law(L, cond2)
            Gb, xib, Xib = law(L, ir.step_from.solution_full.conditional)
            P2 = L.mm(L.mm(Phi2, P_pred), L.T(Phi2)) + Q2
            cl += [
                eq("right_backward_gain_equation", L.mm(Gb, P2), L.mm(P_pred, L.T(Phi2))),
                eq("right_backward_offset", xib, m_pred - L.mv(Gb, L.mv(Phi2, m_pred) + b2)),
                eq("right_backward_cov", Xib, P_pred - L.mm(L.mm(Gb, P2), L.T(Gb))),
            ]
        return cl

    def instances(tier):
        def make(rng):
            solver, s0, s1 = _two_states(cfg, rng)
            import dataclasses

            s1 = dataclasses.replace(s1, prior=s0.prior)
            return (solver,), {"h1": jnp.asarray(rng.uniform(0.1, 0.3)), "h2": jnp.asarray(rng.uniform(0.1, 0.3)), "interp_from": s0, "interp_to": s1}

        def positive(args, kwargs):
            return ivp.positive_leaves(kwargs["interp_from"]) + ivp.positive_leaves(kwargs["interp_to"]) + [kwargs["h1"], kwargs["h2"]]

        def structure(name, ix):
            return None

        return [Instance(cfg.name, make, positive=positive, names=lambda a, k: {id(k["h1"]): "h1", id(k["h2"]): "h2", id(k["interp_from"].t): "t0"})]

    callees = [G.BY_LAYOUT[cfg.layout]["marginalise"], G.BY_LAYOUT[cfg.layout]["revert"], G.BY_LAYOUT[cfg.layout]["merge"]]
    return Contract(
        name=f"{MOD}:ProbabilisticSolver.interpolate_fwd[{cfg.name}]", module=MOD, qualname="ProbabilisticSolver.interpolate_fwd",
        ensures=ensures, instances=instances, callees=callees, wrap=wrap,
        inherits=("revert#", "revert_conditional#"),
        doc="interpolated = exact prediction from the left state; step_from keeps the right state's marginal and bookkeeping",
    )


def interpolate_at_t1_contract(cfg: ivp.Cfg):
    L = cfg.L

    def ensures(res, self, *, t, interp_from, interp_to):
        sol, ir = res
        cl = [eq("sol.t", sol.t, interp_to.t), eq("step_from.t", ir.step_from.t, interp_to.t), eq("interp_from.t", ir.interp_from.t, interp_to.t),
              eq("sol.num_steps", sol.num_steps, interp_to.num_steps)]
        cl += _frame_fields("step_from_keeps_right_state", ir.step_from, interp_to)
        cl += _frame_fields("interp_from_keeps_left_bookkeeping", ir.interp_from, interp_from)
        cl += _same("reported_state_is_the_step_end", sol.u, ivp.filtering_marginal(interp_to))
        fm_new, fm_old = ivp.filtering_marginal(ir.step_from), ivp.filtering_marginal(interp_to)
        cl += [eq("step_from_marginal_mean_unchanged", fm_new.mean_flat, fm_old.mean_flat), eq("step_from_marginal_chol_unchanged", fm_new.cholesky_flat, fm_old.cholesky_flat)]
        if cfg.strategy == "fixedpoint":
            A, b, Q = law(L, ir.step_from.solution_full.conditional)
            n = A.shape[-1]
            eye = jnp.broadcast_to(jnp.eye(n), A.shape)
            cl += [eq("backward_model_reset_to_identity", A, eye), eq("backward_offset_reset", b, 0.0), eq("backward_noise_reset", Q, 0.0)]
            cl += _same("reported_posterior_remembers_the_way_back", sol.solution_full, interp_to.solution_full)
        return cl

    def instances(tier):
        def make(rng):
            solver, s0, s1 = _two_states(cfg, rng)
            return (solver,), {"t": jnp.asarray(0.7), "interp_from": s0, "interp_to": s1}
        return [Instance(cfg.name, make, positive=lambda a, k: ivp.positive_leaves(k["interp_from"]) + ivp.positive_leaves(k["interp_to"]))]

    return Contract(
        name=f"{MOD}:ProbabilisticSolver.interpolate_fwd_at_t1[{cfg.name}]", module=MOD, qualname="ProbabilisticSolver.interpolate_fwd_at_t1",
        ensures=ensures, instances=instances,
        doc="landing on a checkpoint: report the step end, keep stepping from it; fixed-point smoother resets its backward model",
    )


def configs(tier):
    out = []
    for layout in ("dense", "isotropic", "blockdiag"):
        for strategy in ("filter", "fixedpoint", "fixedinterval"):
            out.append(ivp.Cfg(layout, "none", strategy, "ts0", q=1, d=2 if layout != "dense" else 1))
    return out
