"""Contracts for ProbabilisticSolver.interpolate_fwd / interpolate_fwd_at_t1 (C05, frame part for C06)."""

import jax
import jax.numpy as jnp
import numpy as np

from vcgen.harness import Contract, Instance, define, eq, ge, gt, holds

from . import gaussians as G
from . import ivp
from .gaussians import cov, law

MOD = "probdiffeq._probdiffeq.solvers"


def _same(prefix, a, b):
    return [eq(f"{prefix}{k}", x, y) for k, (x, y) in enumerate(zip(jax.tree_util.tree_leaves(a), jax.tree_util.tree_leaves(b)))]


def _frame_fields(prefix, new, old):
    cl = [eq(f"{prefix}.num_steps", new.num_steps, old.num_steps)]
    cl += _same(f"{prefix}.u", new.u, old.u)
    cl += _same(f"{prefix}.output_scale", new.output_scale, old.output_scale)
    cl += _same(f"{prefix}.auxiliary", new.auxiliary, old.auxiliary)
    cl += _same(f"{prefix}.fun_evals", new.fun_evals, old.fun_evals)
    cl += _same(f"{prefix}.prior", new.prior, old.prior)
    return cl


def _two_states(cfg, rng):
    solver, s0 = ivp.make_state(cfg, rng)
    _, s1 = ivp.make_state(cfg, rng, solver=solver, ssm=None) if False else (None, None)
    s0 = ivp.tie_u(ivp.randomise(s0, rng, positive=ivp.positive_leaves(s0)))
    s1 = ivp.tie_u(ivp.randomise(s0, rng, positive=ivp.positive_leaves(s0)))
    return solver, s0, s1


def interpolate_fwd_contract(cfg: ivp.Cfg):
    L = cfg.L

    def wrap(target):
        def f(self, *, h1, h2, interp_from, interp_to):
            import dataclasses

            t = interp_from.t + h1
            interp_to = dataclasses.replace(interp_to, t=t + h2)
            return target(self, t=t, interp_from=interp_from, interp_to=interp_to)

        return f

    def ensures(res, self, *, h1, h2, interp_from, interp_to):
        import dataclasses

        import probdiffeq.backend.linalg as LA

        t = interp_from.t + h1
        interp_to = dataclasses.replace(interp_to, t=t + h2)
        interpolated, ir = res
        cl = [
            eq("interpolated.t", interpolated.t, t), eq("step_from.t", ir.step_from.t, interp_to.t), eq("interp_from.t", ir.interp_from.t, t),
            eq("interpolated.num_steps", interpolated.num_steps, interp_to.num_steps),
        ]
        cl += _frame_fields("step_from_keeps_right_state", ir.step_from, interp_to)
        cl += _frame_fields("interp_from_keeps_left_state", ir.interp_from, interp_from)
        cl += _same("interpolated.output_scale", interpolated.output_scale, interp_to.output_scale)
        cl += _same("interpolated.prior", interpolated.prior, interp_to.prior)
        cl += _same("interpolated.auxiliary", interpolated.auxiliary, interp_to.auxiliary)
        cl += _same("interpolated.fun_evals", interpolated.fun_evals, interp_to.fun_evals)
        # the marginal carried on is the one of the right-hand state (time stepping does not see checkpoints)
        fm_new, fm_old = ivp.filtering_marginal(ir.step_from), ivp.filtering_marginal(interp_to)
        cl += [eq("step_from_marginal_mean_unchanged", fm_new.mean_flat, fm_old.mean_flat), eq("step_from_marginal_chol_unchanged", fm_new.cholesky_flat, fm_old.cholesky_flat)]
        # value: exact Gaussian prediction from the left state over t - t0 with the right state's output scale
        cond = interp_from.prior.transition(dt=t - interp_from.t, output_scale=interp_to.output_scale)
        left = ivp.filtering_marginal(interp_from)
        Phi, m_pred, P_pred = ivp.predict_spec(cfg, left.mean_flat, cov(L, left), cond)
        cl += [eq("interpolated_mean_is_prediction_from_left_state", interpolated.u.mean_flat, m_pred),
               eq("interpolated_cov_is_prediction_from_left_state", cov(L, interpolated.u), P_pred)]
        # the reported posterior: its marginal is the reported marginal; for smoothers its backward model leads back to
        # the previous target (fixed-interval: the left state; fixed-point: merged with the left state's backward model)
        fm_rep = ivp.filtering_marginal(interpolated)
        cl += [eq("reported_posterior_marginal_mean", fm_rep.mean_flat, interpolated.u.mean_flat), eq("reported_posterior_marginal_chol", fm_rep.cholesky_flat, interpolated.u.cholesky_flat)]
        if cfg.strategy != "filter":
            _, back1 = cond.revert(left, solve_triu=LA.solve_triu)  # memoised contract call: RTS backward model t -> t0
            G1, xi1, Xi1 = law(L, back1)
            P_left = cov(L, left)
            cl += [eq("rts_gain_equation_t_to_t0", L.mm(G1, P_pred), L.mm(P_left, L.T(Phi))),
                   eq("rts_offset_t_to_t0", xi1, left.mean_flat - L.mv(G1, m_pred)),
                   eq("rts_cov_t_to_t0", Xi1, P_left - L.mm(L.mm(G1, P_pred), L.T(G1)))]
            Gr, xir, Xir = law(L, interpolated.solution_full.conditional)
            if cfg.strategy == "fixedinterval":
                cl += [eq("reported_backward_linop", Gr, G1), eq("reported_backward_offset", xir, xi1), eq("reported_backward_cov", Xir, Xi1)]
                Gl, xil, Xil = law(L, ir.interp_from.solution_full.conditional)  # the new left reference is the reported posterior
                cl += [eq("interp_from_backward_linop", Gl, G1), eq("interp_from_backward_offset", xil, xi1), eq("interp_from_backward_cov", Xil, Xi1)]
            else:
                A0, b0, Q0 = law(L, interp_from.solution_full.conditional)
                cl += [eq("reported_backward_linop_merged", Gr, L.mm(A0, G1)), eq("reported_backward_offset_merged", xir, L.mv(A0, xi1) + b0),
                       eq("reported_backward_cov_merged", Xir, L.mm(L.mm(A0, Xi1), L.T(A0)) + Q0)]
        # the left reference for later interpolations is the interpolated marginal ...
        fm_left = ivp.filtering_marginal(ir.interp_from)
        cl += [eq("interp_from_marginal_is_interpolated_mean", fm_left.mean_flat, m_pred), eq("interp_from_marginal_is_interpolated_cov", cov(L, fm_left), P_pred)]
        if cfg.strategy == "fixedpoint":
            # ... with a unit backward model: the interpolated point is the new target of the fixed-point smoother
            A_, b_, Q_ = law(L, ir.interp_from.solution_full.conditional)
            eye = jnp.broadcast_to(jnp.eye(A_.shape[-1]), A_.shape)
            cl += [eq("interp_from_backward_model_is_identity", A_, eye), eq("interp_from_backward_offset_zero", b_, 0.0), eq("interp_from_backward_noise_zero", Q_, 0.0)]
        if cfg.strategy != "filter":
            # backward model of the right state now points to t: p(x_t | x_t1) from the prior over t1 - t
            cond2 = interp_from.prior.transition(dt=interp_to.t - t, output_scale=interp_to.output_scale)
            Phi2, b2, Q2 = law(L, cond2)
            Gb, xib, Xib = law(L, ir.step_from.solution_full.conditional)
            P2 = L.mm(L.mm(Phi2, P_pred), L.T(Phi2)) + Q2
            cl += [
                eq("right_backward_gain_equation", L.mm(Gb, P2), L.mm(P_pred, L.T(Phi2))),
                eq("right_backward_offset", xib, m_pred - L.mv(Gb, L.mv(Phi2, m_pred) + b2)),
                eq("right_backward_cov", Xib, P_pred - L.mm(L.mm(Gb, P2), L.T(Gb))),
            ]
        return cl

    def instances(tier):
        def make(rng):
            solver, s0, s1 = _two_states(cfg, rng)
            import dataclasses

            s1 = dataclasses.replace(s1, prior=s0.prior)
            return (solver,), {"h1": jnp.asarray(rng.uniform(0.1, 0.3)), "h2": jnp.asarray(rng.uniform(0.1, 0.3)), "interp_from": s0, "interp_to": s1}

        def positive(args, kwargs):
            return ivp.positive_leaves(kwargs["interp_from"]) + ivp.positive_leaves(kwargs["interp_to"]) + [kwargs["h1"], kwargs["h2"]]

        def structure(name, ix):
            return None

        return [Instance(cfg.name, make, positive=positive, names=lambda a, k: {id(k["h1"]): "h1", id(k["h2"]): "h2", id(k["interp_from"].t): "t0"})]

    callees = [G.BY_LAYOUT[cfg.layout]["marginalise"], G.BY_LAYOUT[cfg.layout]["revert"], G.BY_LAYOUT[cfg.layout]["merge"]]
    return Contract(
        name=f"{MOD}:ProbabilisticSolver.interpolate_fwd[{cfg.name}]", module=MOD, qualname="ProbabilisticSolver.interpolate_fwd",
        ensures=ensures, instances=instances, callees=callees, wrap=wrap,
        inherits=("revert#", "revert_conditional#"),
        doc="interpolated = exact prediction from the left state; step_from keeps the right state's marginal and bookkeeping",
    )


def interpolate_at_t1_contract(cfg: ivp.Cfg):
    L = cfg.L

    def ensures(res, self, *, t, interp_from, interp_to):
        sol, ir = res
        cl = [eq("sol.t", sol.t, interp_to.t), eq("step_from.t", ir.step_from.t, interp_to.t), eq("interp_from.t", ir.interp_from.t, interp_to.t),
              eq("sol.num_steps", sol.num_steps, interp_to.num_steps)]
        cl += _frame_fields("step_from_keeps_right_state", ir.step_from, interp_to)
        cl += _frame_fields("interp_from_keeps_left_bookkeeping", ir.interp_from, interp_from)
        cl += _same("reported_state_is_the_step_end", sol.u, ivp.filtering_marginal(interp_to))
        cl += _same("reported_posterior_is_the_step_end's", sol.solution_full, interp_to.solution_full)
        # the left reference for later interpolations: the step end itself (filter, fixed-interval smoother) ...
        fm_prev = ivp.filtering_marginal(ir.interp_from)
        cl += [eq("interp_from_marginal_mean_is_step_end", fm_prev.mean_flat, ivp.filtering_marginal(interp_to).mean_flat),
               eq("interp_from_marginal_chol_is_step_end", fm_prev.cholesky_flat, ivp.filtering_marginal(interp_to).cholesky_flat)]
        if cfg.strategy == "fixedinterval":
            cl += _same("interp_from_posterior_is_the_step_end's", ir.interp_from.solution_full, interp_to.solution_full)
            # the state to continue from sits exactly at t1: unit backward model (see fix da6e4a0)
            A2, b2_, Q2_ = law(L, ir.step_from.solution_full.conditional)
            eye2 = jnp.broadcast_to(jnp.eye(A2.shape[-1]), A2.shape)
            cl += [eq("step_from_backward_model_reset_to_identity", A2, eye2), eq("step_from_backward_offset_reset", b2_, 0.0), eq("step_from_backward_noise_reset", Q2_, 0.0)]
        if cfg.strategy == "fixedpoint":  # ... with a unit backward model for the fixed-point smoother
            A1, b1, Q1 = law(L, ir.interp_from.solution_full.conditional)
            eye1 = jnp.broadcast_to(jnp.eye(A1.shape[-1]), A1.shape)
            cl += [eq("interp_from_backward_model_reset_to_identity", A1, eye1), eq("interp_from_backward_offset_reset", b1, 0.0), eq("interp_from_backward_noise_reset", Q1, 0.0)]
        # everything reported next to the marginal (output scale, cached linearisation, auxiliary state, prior) belongs to the step end
        cl += _same("reported_output_scale_is_the_step_end's", sol.output_scale, interp_to.output_scale)
        cl += _same("reported_auxiliary_is_the_step_end's", sol.auxiliary, interp_to.auxiliary)
        cl += _same("reported_fun_evals_is_the_step_end's", sol.fun_evals, interp_to.fun_evals)
        cl += _same("reported_prior_is_the_step_end's", sol.prior, interp_to.prior)
        fm_new, fm_old = ivp.filtering_marginal(ir.step_from), ivp.filtering_marginal(interp_to)
        cl += [eq("step_from_marginal_mean_unchanged", fm_new.mean_flat, fm_old.mean_flat), eq("step_from_marginal_chol_unchanged", fm_new.cholesky_flat, fm_old.cholesky_flat)]
        if cfg.strategy == "fixedpoint":
            A, b, Q = law(L, ir.step_from.solution_full.conditional)
            n = A.shape[-1]
            eye = jnp.broadcast_to(jnp.eye(n), A.shape)
            cl += [eq("backward_model_reset_to_identity", A, eye), eq("backward_offset_reset", b, 0.0), eq("backward_noise_reset", Q, 0.0)]
            cl += _same("reported_posterior_remembers_the_way_back", sol.solution_full, interp_to.solution_full)
        return cl

    def instances(tier):
        def make(rng):
            solver, s0, s1 = _two_states(cfg, rng)
            return (solver,), {"t": jnp.asarray(0.7), "interp_from": s0, "interp_to": s1}
        return [Instance(cfg.name, make, positive=lambda a, k: ivp.positive_leaves(k["interp_from"]) + ivp.positive_leaves(k["interp_to"]))]

    return Contract(
        name=f"{MOD}:ProbabilisticSolver.interpolate_fwd_at_t1[{cfg.name}]", module=MOD, qualname="ProbabilisticSolver.interpolate_fwd_at_t1",
        ensures=ensures, instances=instances,
        doc="landing on a checkpoint: report the step end, keep stepping from it; fixed-point smoother resets its backward model",
    )


def configs(tier):
    out = []
    for layout in ("dense", "isotropic", "blockdiag"):
        for strategy in ("filter", "fixedpoint", "fixedinterval"):
            out.append(ivp.Cfg(layout, "none", strategy, "ts0", q=1, d=2 if layout != "dense" else 1))
    return out


# --------------------------------------------------------------------------------------
# offgrid_marginals (after-the-fact dense output)
# --------------------------------------------------------------------------------------


def offgrid_contract(cfg: ivp.Cfg, N=2, k=0):
    """Query time strictly inside the k-th step of a stored solution with N steps."""
    L = cfg.L

    def stacked_solution(rng):
        import dataclasses

        from probdiffeq._probdiffeq.estimators_and_losses import MarkovSequence, SmoothingSolution

        solver, base = ivp.make_state(cfg, rng)
        states = [ivp.tie_u(ivp.randomise(base, rng, positive=ivp.positive_leaves(base))) for _ in range(N + 1)]
        stack = lambda xs: jax.tree_util.tree_map(lambda *a: jnp.stack(a), *xs)
        u = stack([s.u for s in states])
        if cfg.strategy == "filter":
            sf = u
        else:
            conds = stack([s.solution_full.conditional for s in states[1:]])
            filtering = stack([ivp.randomise(s.u, rng) for s in states])
            sf = SmoothingSolution(posterior=MarkovSequence(states[-1].u, conds, reverse=True), filtering=filtering)
        prior = stack([base.prior] * N)
        sol = dataclasses.replace(base, u=u, solution_full=sf, output_scale=jnp.asarray(rng.uniform(0.5, 2.0, size=(N + 1,) + np.shape(base.output_scale))), prior=prior,
                                  num_steps=jnp.arange(N + 1.0), auxiliary=None, fun_evals=None, t=jnp.zeros((N + 1,)))
        return solver, sol

    def times(t0, hs, theta, theta2):
        incs = [hs[j] if j != k else theta + theta2 for j in range(N)]
        grid = [t0]
        for h in incs:
            grid.append(grid[-1] + h)
        return jnp.stack(grid), grid[k] + theta

    def wrap(target):
        def f(self, solution, t0, hs, theta, theta2):
            import dataclasses

            grid, t = times(t0, hs, theta, theta2)
            return target(self, t, solution=dataclasses.replace(solution, t=grid))

        return f

    def ensures(res, self, solution, t0, hs, theta, theta2):
        import probdiffeq.backend.linalg as LA

        grid, t = times(t0, hs, theta, theta2)
        idx = lambda tree, j: jax.tree_util.tree_map(lambda a: a[j], tree)
        prior_k = idx(solution.prior, k)
        scale = solution.output_scale[k + 1]
        cond1 = prior_k.transition(dt=t - grid[k], output_scale=scale)
        left = idx(solution.solution_full if cfg.strategy == "filter" else solution.solution_full.filtering, k)
        Phi, m_t, P_t = ivp.predict_spec(cfg, left.mean_flat, cov(L, left), cond1)
        if cfg.strategy == "filter":
            return [eq("offgrid_mean_is_prediction_from_preceding_state", res.mean_flat, m_t), eq("offgrid_cov_is_prediction_from_preceding_state", cov(L, res), P_t)]
        # fixed-interval smoother: additionally conditioned on everything later, through the smoothed marginal at t_{k+1}
        cond2 = prior_k.transition(dt=grid[k + 1] - t, output_scale=scale)
        Phi2, b2, Q2 = law(L, cond2)
        P2 = L.mm(L.mm(Phi2, P_t), L.T(Phi2)) + Q2
        rv_t, _ = cond1.revert(left, solve_triu=LA.solve_triu)
        _, back = cond2.revert(rv_t, solve_triu=LA.solve_triu)
        Gb, xib, Xib = law(L, back)
        right = idx(solution.u, k + 1)
        return [
            eq("rts_gain_equation", L.mm(Gb, P2), L.mm(P_t, L.T(Phi2))),
            eq("offgrid_mean_is_rts_interpolation", res.mean_flat, m_t + L.mv(Gb, right.mean_flat - (L.mv(Phi2, m_t) + b2))),
            eq("offgrid_cov_is_rts_interpolation", cov(L, res), P_t + L.mm(L.mm(Gb, cov(L, right) - P2), L.T(Gb))),
        ]

    def instances(tier):
        def make(rng):
            solver, sol = stacked_solution(rng)
            sc = lambda: jnp.asarray(rng.uniform(0.1, 0.3))
            return (solver, sol, jnp.asarray(rng.uniform(0.0, 0.2)), jnp.asarray(rng.uniform(0.1, 0.3, size=(N,))), sc(), sc()), {}

        def positive(args, kwargs):
            sol = args[1]
            out = [sol.output_scale, args[3], args[4], args[5], sol.prior.output_scale]
            if cfg.strategy != "filter":
                out += [sol.solution_full.posterior.conditional.to_latent, sol.solution_full.posterior.conditional.to_observed]
            return out

        return [Instance(f"{cfg.name},N={N},k={k}", make, positive=positive, names=lambda a, k_: {id(a[2]): "t0", id(a[3]): "h", id(a[4]): "theta", id(a[5]): "theta2"})]

    callees = [G.BY_LAYOUT[cfg.layout]["marginalise"], G.BY_LAYOUT[cfg.layout]["revert"]]
    return Contract(name=f"{MOD}:ProbabilisticSolver.offgrid_marginals[{cfg.name},N={N},k={k}]", module=MOD, qualname="ProbabilisticSolver.offgrid_marginals", wrap=wrap,
                    ensures=ensures, instances=instances, callees=callees, inherits=("revert#", "revert_conditional#"),
                    doc="after-the-fact marginal strictly inside step k: prediction from the preceding filtering state (filter) / RTS interpolation towards the smoothed marginal at the next grid point (fixed-interval smoother)")
