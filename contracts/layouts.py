"""Contracts for the pytree <-> array layouts of the three factorisations (C15, layout part)."""

import collections

import jax
import jax.numpy as jnp
import numpy as np

from vcgen.harness import Contract, Instance, eq, holds

from .gaussians import LAYOUTS, BlockL, DenseL, IsoL

Pt = collections.namedtuple("Pt", ["x", "y"])

STRUCTS = {
    "array(d)": lambda rng: jnp.asarray(rng.normal(size=(2,))),
    "scalar": lambda rng: jnp.asarray(rng.normal()),
    "dict": lambda rng: {"a": jnp.asarray(rng.normal(size=(2,))), "b": jnp.asarray(rng.normal())},
    "tuple+matrix": lambda rng: (jnp.asarray(rng.normal(size=(2, 2))), jnp.asarray(rng.normal(size=(1,)))),
    "namedtuple": lambda rng: Pt(jnp.asarray(rng.normal(size=(1,))), {"z": jnp.asarray(rng.normal(size=(2,)))}),
    "rank3": lambda rng: {"t": jnp.asarray(rng.normal(size=(1, 2, 1)))},
}


def _tf(L, example):
    import importlib

    M = importlib.import_module(L.module)
    cls = {DenseL: "DenseTreeFlatten", IsoL: "IsotropicTreeFlatten", BlockL: "BlockDiagTreeFlatten"}[L]
    return getattr(M, cls).from_example(example)


def roundtrip_contract(L):
    cls = {DenseL: "DenseTreeFlatten", IsoL: "IsotropicTreeFlatten", BlockL: "BlockDiagTreeFlatten"}[L]

    def wrap(target):
        def f(tcoeffs, flat):
            tf = _tf(L, tcoeffs)
            a = tf.flatten_tree(tcoeffs)
            back = tf.unflatten_array(a)
            there = tf.flatten_tree(tf.unflatten_array(flat))
            return a, back, there

        return f

    def ensures(res, tcoeffs, flat):
        a, back, there = res
        n = len(tcoeffs)
        per = [jnp.concatenate([jnp.ravel(l) for l in jax.tree_util.tree_leaves(c)]) for c in tcoeffs]  # (d,) per coefficient
        stacked = jnp.stack(per)  # (n, d): coefficient i, flattened component j
        if L is DenseL:
            expected = stacked.reshape(-1)  # coefficient-major
        elif L is IsoL:
            expected = stacked
        else:
            expected = stacked.T
        cl = [eq("ravel_order", a, expected), eq("flatten_after_unflatten_is_identity", there, flat),
              holds("structure_restored", jnp.asarray(jax.tree_util.tree_structure(back) == jax.tree_util.tree_structure(list(tcoeffs))))]
        for k, (x, y) in enumerate(zip(jax.tree_util.tree_leaves(back), jax.tree_util.tree_leaves(list(tcoeffs)))):
            cl.append(eq(f"unflatten_after_flatten_is_identity_leaf{k}", x, y))
        return cl

    def instances(tier):
        out = []
        names = list(STRUCTS) if tier == "thorough" else ["array(d)", "dict", "namedtuple", "tuple+matrix"]
        for nm in names:
            for n in (1, 3):
                def make(rng, nm=nm, n=n):
                    tc = [STRUCTS[nm](rng) for _ in range(n)]
                    d = sum(int(np.prod(np.shape(l))) for l in jax.tree_util.tree_leaves(tc[0]))
                    shape = {DenseL: (n * d,), IsoL: (n, d), BlockL: (d, n)}[L]
                    return (tc, jnp.asarray(rng.normal(size=shape))), {}
                out.append(Instance(f"{nm},n={n}", make))
        return out

    return Contract(name=f"{L.module}:{cls}.flatten_tree/unflatten_array", module=L.module, qualname=f"{cls}.flatten_tree", wrap=wrap, ensures=ensures, instances=instances,
                    doc="flatten and unflatten are mutually inverse; ravel order: coefficient-major (dense), (n,d) (isotropic), (d,n) (block-diag)")


def mean_std_structure_contract(L):
    def wrap(target):
        def f(tcoeffs, std):
            import importlib

            M = importlib.import_module(L.module)
            rv = getattr(M, L.normal).from_mean_and_std(tcoeffs, std)
            return rv.mean, rv.std, rv.mean_flat, rv.cholesky_flat

        return f

    def ensures(res, tcoeffs, std):
        mean, sd, mflat, chol = res
        cl = [holds("mean_structure_is_callers", jnp.asarray(jax.tree_util.tree_structure(mean) == jax.tree_util.tree_structure(list(tcoeffs)))),
              holds("std_structure_is_callers", jnp.asarray(jax.tree_util.tree_structure(sd) == jax.tree_util.tree_structure(list(std))))]
        for k, (x, y) in enumerate(zip(jax.tree_util.tree_leaves(mean), jax.tree_util.tree_leaves(list(tcoeffs)))):
            cl.append(eq(f"mean_leaf{k}", x, y))
        for k, (x, y) in enumerate(zip(jax.tree_util.tree_leaves(sd), jax.tree_util.tree_leaves(list(std)))):
            cl.append(eq(f"std_squared_leaf{k}", x * x, y * y))
        # the flat representation: documented ravel order of the mean, diagonal covariance diag(std^2)
        per = jnp.stack([jnp.concatenate([jnp.ravel(l) for l in jax.tree_util.tree_leaves(c)]) for c in tcoeffs])  # (n, d)
        n, d = per.shape
        if L is IsoL:
            var = jnp.stack([jnp.reshape(jnp.asarray(s_), ()) ** 2 for s_ in std])  # one std per coefficient
            cl += [eq("mean_flat_layout", mflat, per), eq("cov_is_diag_of_squared_stds", chol @ chol.T, jnp.diag(var))]
        else:
            sper = jnp.stack([jnp.concatenate([jnp.ravel(l) for l in jax.tree_util.tree_leaves(c)]) for c in std])  # (n, d)
            if L is DenseL:
                cl += [eq("mean_flat_layout", mflat, per.reshape(-1)), eq("cov_is_diag_of_squared_stds", chol @ chol.T, jnp.diag(sper.reshape(-1) ** 2))]
            else:
                cl += [eq("mean_flat_layout", mflat, per.T), eq("cov_is_diag_of_squared_stds", jnp.einsum("dij,dkj->dik", chol, chol), jax.vmap(jnp.diag)(sper.T ** 2))]
        return cl

    def instances(tier):
        out = []
        for nm in ["array(d)", "dict", "namedtuple"]:
            def make(rng, nm=nm):
                tc = [STRUCTS[nm](rng) for _ in range(2)]
                if L is IsoL:
                    sd = [jnp.asarray(rng.uniform(0.5, 2.0)) for _ in range(2)]
                else:
                    sd = [jax.tree_util.tree_map(lambda x: jnp.asarray(rng.uniform(0.5, 2.0, size=np.shape(x))), c) for c in tc]
                return (tc, sd), {}
            out.append(Instance(nm, make))
        return out

    return Contract(name=f"{L.module}:{L.normal}.from_mean_and_std/mean/std", module=L.module, qualname=f"{L.normal}.from_mean_and_std", wrap=wrap, ensures=ensures, instances=instances,
                    doc="means and standard deviations come back in the caller's pytree structure with the caller's values")


def contracts():
    out = []
    for L in LAYOUTS:
        out += [roundtrip_contract(L), mean_std_structure_contract(L)]
    return out
