"""Machine-checked lemmas about the *specification* (C14): the textbook EKF update commutes with the
embeddings of the isotropic and block-diagonal models into the dense one.

Together with the C02 step contracts (each factorisation's step == textbook EKF with its documented
structure) and the uniqueness of the gain for a non-singular innovation covariance (also a lemma here),
this gives the agreements stated in C14.  The functions below are specification code in /verif, not code of
the repository; they are listed in the evidence as lemmas, not as functions under contract.
"""

import jax
import jax.numpy as jnp
import numpy as np

from vcgen.harness import Contract, Instance, eq

MOD = "contracts.lemmas"


def ekf_closed_form(Phi, Q, m, P, H, b, R, W):
    """Covariance-form EKF step with the ghost inverse W of the innovation covariance."""
    m_pred = Phi @ m
    P_pred = Phi @ P @ Phi.T + Q
    S = H @ P_pred @ H.T + R
    K = P_pred @ H.T @ W
    r = H @ m_pred + b
    m_post = m_pred - K @ r
    P_post = P_pred - K @ S @ K.T
    term2 = (r @ W @ r) / r.size
    return m_post, P_post, S, term2


def gain_uniqueness(K, S, C, W):
    return K


def iso_vs_dense(Phi, Q, M, P, h, B, rho, w, lam):
    """isotropic quantities -> (dense result, embedded isotropic result)."""
    n, d = M.shape
    I = jnp.eye(d)
    # isotropic: all d dimensions share (Phi, Q, P, h); means / offsets are per dimension (columns)
    S_i = h @ (Phi @ P @ Phi.T + lam * lam * Q) @ h.T + rho * rho  # (1,1)
    cols = [ekf_closed_form(Phi, lam * lam * Q, M[:, j], P, h, B[:, j], rho * rho * jnp.eye(1), w) for j in range(d)]
    M_post = jnp.stack([c[0] for c in cols], axis=1)
    P_post_i = cols[0][1]
    term2_i = sum(c[3] * 1 for c in cols) / d  # RMS over all n_obs*d whitened residuals
    # dense embedding (coefficient-major ordering)
    dense = ekf_closed_form(jnp.kron(Phi, I), jnp.kron(lam * lam * Q, I), M.reshape(-1), jnp.kron(P, I), jnp.kron(h, I), B.reshape(-1), rho * rho * jnp.eye(d), jnp.kron(w, I))
    return dense, (M_post.reshape(-1), jnp.kron(P_post_i, I), S_i, term2_i)


def blockdiag_vs_dense(Phi, Q, M, Ps, hs, B, rho, ws, lams):
    """block-diagonal quantities (per dimension j: P_j, h_j (decoupled first-order linearisation), lam_j, w_j)
    -> (dense result with the block-diagonal embedding, embedded per-dimension results)."""
    n, d = M.shape
    E = [jnp.zeros((d, d)).at[j, j].set(1.0) for j in range(d)]
    per = [ekf_closed_form(Phi, lams[j] ** 2 * Q, M[:, j], Ps[j], hs[j], B[:, j], rho * rho * jnp.eye(1), ws[j]) for j in range(d)]
    P_emb = sum(jnp.kron(per[j][1], E[j]) for j in range(d))
    M_emb = jnp.stack([p[0] for p in per], axis=1).reshape(-1)
    dense = ekf_closed_form(
        jnp.kron(Phi, jnp.eye(d)), sum(jnp.kron(lams[j] ** 2 * Q, E[j]) for j in range(d)), M.reshape(-1), sum(jnp.kron(Ps[j], E[j]) for j in range(d)),
        sum(jnp.kron(hs[j], E[j]) for j in range(d)), B.reshape(-1), rho * rho * jnp.eye(d), sum(jnp.kron(ws[j], E[j]) for j in range(d)),
    )
    term2_mean = sum(p[3] for p in per) / d
    return dense, (M_emb, P_emb, term2_mean)


def uniqueness_contract():
    def requires(K, S, C, W):
        return [eq("gain_equation", K @ S, C), eq("W_inverts_S", S @ W, jnp.eye(S.shape[0]))]

    def ensures(res, K, S, C, W):
        return [eq("gain_is_unique", res, C @ W)]

    def instances(tier):
        out = []
        for n, k in [(2, 1), (3, 2)]:
            out.append(Instance(f"n={n},k={k}", lambda rng, n=n, k=k: ((jnp.asarray(rng.normal(size=(n, k))), jnp.asarray(rng.normal(size=(k, k))), jnp.asarray(rng.normal(size=(n, k))), jnp.asarray(rng.normal(size=(k, k)))), {})))
        return out

    return Contract(name="lemma:gain_uniqueness", module=MOD, qualname="gain_uniqueness", requires=requires, ensures=ensures, instances=instances,
                    doc="K S = C and S W = I imply K = C W: with a non-singular innovation covariance the inverse-free postconditions of C02/C08 determine the gain")


def iso_dense_contract():
    def requires(Phi, Q, M, P, h, B, rho, w, lam):
        S_i = h @ (Phi @ P @ Phi.T + lam * lam * Q) @ h.T + rho * rho
        return [eq("w_inverts_isotropic_innovation", S_i @ w, jnp.eye(1))]

    def ensures(res, Phi, Q, M, P, h, B, rho, w, lam):
        (m_d, P_d, S_d, t_d), (m_e, P_e, S_i, t_i) = res
        d = M.shape[1]
        return [eq("embedded_inverse_inverts_dense_innovation", S_d @ jnp.kron(w, jnp.eye(d)), jnp.eye(d)),
                eq("means_agree", m_d, m_e), eq("dense_cov_is_iso_cov_kron_identity", P_d, P_e), eq("mle_terms_agree", t_d, t_i)]

    def instances(tier):
        out = []
        for n, d in [(2, 2), (3, 2)] + ([(3, 3)] if tier == "thorough" else []):
            def make(rng, n=n, d=d):
                return tuple(jnp.asarray(x) for x in (rng.normal(size=(n, n)), rng.normal(size=(n, n)), rng.normal(size=(n, d)), rng.normal(size=(n, n)), rng.normal(size=(1, n)), rng.normal(size=(1, d)), rng.uniform(0.1, 1.0), rng.normal(size=(1, 1)), rng.uniform(0.5, 2.0))), {}
            out.append(Instance(f"n={n},d={d}", make))
        return out

    return Contract(name="lemma:isotropic_embeds_into_dense", module=MOD, qualname="iso_vs_dense", requires=requires, ensures=ensures, instances=instances,
                    doc="EKF update with (Phi (x) I, P (x) I, h (x) I) equals the isotropic update embedded: means equal, cov = cov_iso (x) I, MLE terms equal (zeroth order, or first order with a Jacobian that is a multiple of the identity)")


def block_dense_contract():
    def requires(Phi, Q, M, Ps, hs, B, rho, ws, lams):
        cl = []
        for j in range(M.shape[1]):
            S_j = hs[j] @ (Phi @ Ps[j] @ Phi.T + lams[j] ** 2 * Q) @ hs[j].T + rho * rho
            cl.append(eq(f"w{j}_inverts_innovation_of_dimension_{j}", S_j @ ws[j], jnp.eye(1)))
        return cl

    def ensures(res, Phi, Q, M, Ps, hs, B, rho, ws, lams):
        (m_d, P_d, S_d, t_d), (m_e, P_e, t_mean) = res
        return [eq("means_agree", m_d, m_e), eq("dense_cov_is_block_diagonal_embedding", P_d, P_e), eq("dense_mle_term_is_mean_of_per_dimension_terms", t_d, t_mean)]

    def instances(tier):
        out = []
        for n, d in [(2, 2)] + ([(3, 2)] if tier == "thorough" else []):
            def make(rng, n=n, d=d):
                return tuple(jnp.asarray(x) for x in (rng.normal(size=(n, n)), rng.normal(size=(n, n)), rng.normal(size=(n, d)), rng.normal(size=(d, n, n)), rng.normal(size=(d, 1, n)), rng.normal(size=(1, d)), rng.uniform(0.1, 1.0), rng.normal(size=(d, 1, 1)), rng.uniform(0.5, 2.0, size=(d,)))), {}
            out.append(Instance(f"n={n},d={d}", make))
        return out

    return Contract(name="lemma:blockdiag_embeds_into_dense", module=MOD, qualname="blockdiag_vs_dense", requires=requires, ensures=ensures, instances=instances,
                    doc="for componentwise-decoupled linearisations the dense EKF update with block-diagonal structure equals the independent per-dimension updates; the dense MLE term is the mean of the per-dimension terms")


def contracts():
    return [uniqueness_contract(), iso_dense_contract(), block_dense_contract()]


# ---- scale equivariance of the specification (C04, C07) ------------------------------------------------


def scaled_pair(Phi, Q, m, P, H, b, W, c):
    """EKF closed form (damp = 0) at base scale 1 and at base scale c (P, Q scaled by c^2, W by 1/c^2)."""
    k = H.shape[0]
    one = ekf_closed_form(Phi, Q, m, P, H, b, jnp.zeros((k, k)), W)
    scaled = ekf_closed_form(Phi, c * c * Q, m, c * c * P, H, b, jnp.zeros((k, k)), W / (c * c))
    # local error quantity of C07 (squared, up to the common dt^n/n! factor): sigma_hat^2 * diag(S0), S0 = H Q H^T
    r = H @ (Phi @ m) + b
    S0 = H @ Q @ H.T
    err2_one = (r @ W @ r) / k * jnp.diagonal(S0)
    err2_scaled = (r @ (W / (c * c)) @ r) / k * jnp.diagonal(c * c * S0)
    return one, scaled, err2_one, err2_scaled


def equivariance_contract():
    def requires(Phi, Q, m, P, H, b, W, c):
        S = H @ (Phi @ P @ Phi.T + Q) @ H.T
        return [eq("W_inverts_innovation_covariance", S @ W, jnp.eye(H.shape[0]))]

    def ensures(res, Phi, Q, m, P, H, b, W, c):
        (m1, P1, S1, t1), (m2, P2, S2, t2), e1, e2 = res
        return [eq("scaled_inverse_inverts_scaled_innovation", S2 @ (W / (c * c)), jnp.eye(H.shape[0])),
                eq("posterior_mean_unchanged", m2, m1), eq("uncalibrated_cov_scales_with_c^2", P2, c * c * P1),
                eq("mle_term_divides_by_c", t2 * c * c, t1), eq("calibrated_cov_unchanged", t2 * P2, t1 * P1),
                eq("local_error_quantity_unchanged", e2, e1)]

    def instances(tier):
        out = []
        for n, k in [(2, 1)] + ([(3, 1), (2, 2)] if tier == "thorough" else []):
            def make(rng, n=n, k=k):
                return tuple(jnp.asarray(x) for x in (rng.normal(size=(n, n)), rng.normal(size=(n, n)), rng.normal(size=(n,)), rng.normal(size=(n, n)), rng.normal(size=(k, n)), rng.normal(size=(k,)), rng.normal(size=(k, k)), rng.uniform(0.5, 2.0))), {}
            out.append(Instance(f"n={n},k={k}", make, positive=lambda a, kw: [a[7]]))
        return out

    return Contract(name="lemma:scale_equivariance_of_the_ekf_specification", module=MOD, qualname="scaled_pair", requires=requires, ensures=ensures, instances=instances,
                    doc="multiplying the prior's base scale by c (P, Q -> c^2 P, c^2 Q; damp = 0) leaves the posterior mean, the calibrated covariance and the local error quantity unchanged, multiplies the uncalibrated covariance by c^2 and divides the quasi-MLE term by c")


# ---- permutation equivariance of the specification (C15) -------------------------------------------------


def ekf_gain_form(Phi, Q, m, P, H, b, R, K, w):
    """Inverse-free EKF step: K is any matrix with K S = P^- H^T and w any vector with S w = r (both are outputs
    of the C02/C08 contracts as ghost witnesses)."""
    m_pred = Phi @ m
    P_pred = Phi @ P @ Phi.T + Q
    S = H @ P_pred @ H.T + R
    r = H @ m_pred + b
    return dict(S=S, r=r, C=P_pred @ H.T, m_post=m_pred - K @ r, P_post=P_pred - K @ S @ K.T, term2=(r @ w) / r.size)


def permuted_pair(Phi1, Q1, m, P, rho, K, w, t, *, perm):
    """First-order (dense Jacobian) EKF step for u' = f(u, t) and for the permuted problem
    v = Pi u,  v' = Pi f(Pi^T v, t), started from the permuted state; coefficient-major layout (I_n (x) Pi).
    The permuted problem uses the permuted witnesses (I (x) Pi) K Pi^T and Pi w."""
    from . import ivp

    n, d = Phi1.shape[0], len(perm)
    Pi = jnp.eye(d)[jnp.asarray(perm)]
    big = jnp.kron(jnp.eye(n), Pi)
    f = ivp.get_uf(d, 1)
    Phi, Q = jnp.kron(Phi1, jnp.eye(d)), jnp.kron(Q1, jnp.eye(d))

    def lin(fun, mv):
        x0, x1 = mv[:d], mv[d : 2 * d]
        J = jax.jacfwd(lambda x: fun(x, t))(x0)
        H = jnp.zeros((d, n * d)).at[:, :d].set(-J).at[:, d : 2 * d].set(jnp.eye(d))
        r = x1 - fun(x0, t)
        return H, r - H @ mv

    H, b = lin(f, Phi @ m)
    one = ekf_gain_form(Phi, Q, m, P, H, b, rho * rho * jnp.eye(d), K, w)
    g = lambda x, tt: Pi @ f(Pi.T @ x, tt)
    m2, P2 = big @ m, big @ P @ big.T
    H2, b2 = lin(g, Phi @ m2)
    two = ekf_gain_form(Phi, Q, m2, P2, H2, b2, rho * rho * jnp.eye(d), big @ K @ Pi.T, Pi @ w)
    return one, two


def permutation_contract():
    keys = ("S", "r", "C", "m_post", "P_post", "term2")

    def wrap(target):
        def f(Phi1, Q1, m, P, rho, K, w, t, *, perm):
            one, two = target(Phi1, Q1, m, P, rho, K, w, t, perm=perm)
            return [one[k] for k in keys], [two[k] for k in keys]

        return f

    def requires(Phi1, Q1, m, P, rho, K, w, t, *, perm):
        one, _ = permuted_pair(Phi1, Q1, m, P, rho, K, w, t, perm=perm)
        return [eq("K_is_a_gain", K @ one["S"], one["C"]), eq("w_whitens_the_residual", one["S"] @ w, one["r"])]

    def ensures(res, Phi1, Q1, m, P, rho, K, w, t, *, perm):
        one, two = (dict(zip(keys, r)) for r in res)
        n, d = Phi1.shape[0], len(perm)
        Pi = jnp.eye(d)[jnp.asarray(perm)]
        big = jnp.kron(jnp.eye(n), Pi)
        return [eq("innovation_covariance_is_permuted", two["S"], Pi @ one["S"] @ Pi.T), eq("residual_is_permuted", two["r"], Pi @ one["r"]),
                eq("permuted_gain_is_a_gain_of_the_permuted_problem", (big @ K @ Pi.T) @ two["S"], two["C"]),
                eq("permuted_witness_whitens_the_permuted_residual", two["S"] @ (Pi @ w), two["r"]),
                eq("posterior_mean_is_permuted", two["m_post"], big @ one["m_post"]), eq("posterior_cov_is_permuted", two["P_post"], big @ one["P_post"] @ big.T),
                eq("mle_term_unchanged", two["term2"], one["term2"])]

    def instances(tier):
        import itertools

        out = []
        fam = [(2, p) for p in itertools.permutations(range(2))] + [(2, (1, 2, 0)), (2, (0, 2, 1))]
        if tier == "thorough":
            fam = [(2, p) for d in (2, 3) for p in itertools.permutations(range(d))] + [(3, (1, 0)), (3, (2, 0, 1)), (2, (1, 3, 0, 2))]
        for n, perm in fam:
            d = len(perm)
            def make(rng, n=n, d=d, perm=perm):
                return tuple(jnp.asarray(x) for x in (rng.normal(size=(n, n)), rng.normal(size=(n, n)), rng.normal(size=(n * d,)), rng.normal(size=(n * d, n * d)), rng.uniform(0.1, 1.0), rng.normal(size=(n * d, d)), rng.normal(size=(d,)), rng.normal())), {"perm": perm}
            out.append(Instance(f"n={n},perm={perm}", make))
        return out

    return Contract(name="lemma:permutation_equivariance_of_the_ekf_specification", module=MOD, qualname="permuted_pair", wrap=wrap, requires=requires, ensures=ensures, instances=instances,
                    doc="permuting the state components (v = Pi u, field Pi f(Pi^T v, t), state (I (x) Pi) m, (I (x) Pi) P (I (x) Pi)^T) permutes the first-order EKF step: the permuted gain / whitening witnesses are witnesses of the permuted problem, mean and covariance are permuted, the quasi-MLE term is unchanged (with gain uniqueness: every solution of the permuted problem); the Jacobian of the permuted field is obtained by differentiating it (uninterpreted f)")


# ---- triangular-factor lemmas behind the log-density specification (C12) -----------------------------------


def triangular_factor_facts(C, Cinv, r):
    """For a lower-triangular factor C of cov = C C^T with (ghost) inverse Cinv and w = Cinv r:
    returns (cov, W := Cinv^T Cinv, |w|^2, r^T W r, det cov by Leibniz expansion, (prod diag C)^2)."""
    import itertools

    n = C.shape[0]
    Cl = jnp.tril(C)
    cov_ = Cl @ Cl.T
    W = Cinv.T @ Cinv
    w = Cinv @ r
    det = 0.0
    for perm in itertools.permutations(range(n)):
        sign = 1.0
        for i in range(n):
            for j in range(i + 1, n):
                if perm[i] > perm[j]:
                    sign = -sign
        term = sign
        for i in range(n):
            term = term * cov_[i, perm[i]]
        det = det + term
    prod = 1.0
    for i in range(n):
        prod = prod * Cl[i, i]
    return cov_, W, jnp.sum(w * w), r @ W @ r, det, prod * prod, Cl @ w


def triangular_contract():
    def requires(C, Cinv, r):
        n = C.shape[0]
        Cl = jnp.tril(C)
        return [eq("Cinv_is_left_inverse", Cinv @ Cl, jnp.eye(n)), eq("Cinv_is_right_inverse", Cl @ Cinv, jnp.eye(n))]

    def ensures(res, C, Cinv, r):
        cov_, W, ww, rWr, det, prod2, Cw = res
        n = C.shape[0]
        return [eq("whitened_residual_solves_C_w_=_r", Cw, r),
                eq("W_inverts_cov_left", W @ cov_, jnp.eye(n)), eq("W_inverts_cov_right", cov_ @ W, jnp.eye(n)),
                eq("squared_whitened_norm_is_mahalanobis_distance", ww, rWr),
                eq("determinant_of_cov_is_squared_product_of_diagonal", det, prod2)]

    def instances(tier):
        out = []
        for n in (1, 2, 3) + ((4,) if tier == "thorough" else ()):
            def make(rng, n=n):
                C = np.tril(rng.normal(size=(n, n))) + 2.0 * np.eye(n)
                return (jnp.asarray(C), jnp.asarray(np.linalg.inv(C)), jnp.asarray(rng.normal(size=(n,)))), {}
            out.append(Instance(f"n={n}", make))
        return out

    return Contract(name="lemma:triangular_factor_gives_mahalanobis_and_determinant", module=MOD, qualname="triangular_factor_facts", requires=requires, ensures=ensures, instances=instances,
                    doc="for any lower-triangular C with C C^T = cov and C w = r: |w|^2 = r^T cov^-1 r and det cov = (prod C_ii)^2, so -1/2|w|^2 - sum log|C_ii| - n/2 log 2 pi is the Gaussian log-density (the logarithm rule log(x^2) = 2 log|x| is the only step left to mathematics)")


# ---- Rauch-Tung-Striebel recursion = conditioning of the joint law (C03) -------------------------------------


def rts_vs_direct(m, P, Phi, c, Q, H, d, R, y, K, G):
    """x0 ~ N(m, P), x1 = Phi x0 + c + N(0, Q), y = H x1 + d + N(0, R).  Inverse-free: K is a filter gain
    (K S = P1 H^T), G a smoothing gain (G P1 = P Phi^T) -- the ghost witnesses the C02 / C03 contracts provide.
    Returns the RTS result for x0 | y and the quantities of the direct conditioning of the joint law (x0, y)."""
    m1 = Phi @ m + c
    P1 = Phi @ P @ Phi.T + Q
    yhat = H @ m1 + d
    S = H @ P1 @ H.T + R
    C0 = P @ Phi.T @ H.T  # Cov(x0, y)
    ms = m1 + K @ (y - yhat)
    Ps = P1 - K @ S @ K.T
    rts_mean = m + G @ (ms - m1)
    rts_cov = P + G @ (Ps - P1) @ G.T
    D = G @ K  # candidate gain of the direct problem
    return rts_mean, rts_cov, D @ S, C0, m + D @ (y - yhat), P - D @ S @ D.T, P1, S


def rts_contract():
    def requires(m, P, Phi, c, Q, H, d, R, y, K, G):
        *_, P1, S = rts_vs_direct(m, P, Phi, c, Q, H, d, R, y, K, G)
        return [eq("K_is_a_filter_gain", K @ S, P1 @ H.T), eq("G_is_a_smoothing_gain", G @ P1, P @ Phi.T)]

    def ensures(res, m, P, Phi, c, Q, H, d, R, y, K, G):
        rm, rc, DS, C0, dm, dc, P1, S = res
        return [eq("G_K_is_a_gain_of_the_direct_conditioning_problem", DS, C0),
                eq("smoothed_mean_is_conditional_mean_of_the_joint_law", rm, dm), eq("smoothed_cov_is_conditional_cov_of_the_joint_law", rc, dc)]

    def instances(tier):
        out = []
        for n, k in [(1, 1), (2, 1), (2, 2)] + ([(3, 2), (3, 3)] if tier == "thorough" else []):
            def make(rng, n=n, k=k):
                sym = lambda a: a @ a.T + np.eye(a.shape[0])
                P, Q, R = sym(rng.normal(size=(n, n))), sym(rng.normal(size=(n, n))), sym(rng.normal(size=(k, k)))
                Phi, H = rng.normal(size=(n, n)), rng.normal(size=(k, n))
                P1 = Phi @ P @ Phi.T + Q
                S = H @ P1 @ H.T + R
                vals = (rng.normal(size=(n,)), P, Phi, rng.normal(size=(n,)), Q, H, rng.normal(size=(k,)), R, rng.normal(size=(k,)), P1 @ H.T @ np.linalg.inv(S), P @ Phi.T @ np.linalg.inv(P1))
                return tuple(jnp.asarray(v) for v in vals), {}
            out.append(Instance(f"n={n},k={k}", make))
        return out

    return Contract(name="lemma:rts_step_equals_conditioning_of_the_joint_law", module=MOD, qualname="rts_vs_direct", requires=requires, ensures=ensures, instances=instances,
                    doc="one future datum: filtering x1 | y followed by one Rauch-Tung-Striebel step equals conditioning the joint Gaussian (x0, y): the product of smoothing and filter gain is a gain of the direct problem, and mean / covariance coincide (with gain uniqueness: the conditional law); longer horizons follow by induction with the Markov property (stated)")
