"""Contracts for the integrated Wiener process prior (C09, IWP part)."""

import math

import jax
import jax.numpy as jnp
import numpy as np

from vcgen.harness import Contract, Instance, eq, ge, gt, holds

from . import gaussians as G
from .gaussians import BlockL, DenseL, IsoL, cov, law

UT = "probdiffeq._probdiffeq.utilities"
CU = "probdiffeq.util.cholesky_util"


def _orders(tier):
    return [0, 1, 2, 3] if tier == "quick" else list(range(0, 11))


# ---- cholesky_hilbert ------------------------------------------------------------------------


def _hilbert_contract():
    def wrap(target):
        def f(*, n, K):
            return target(n, K)

        return f

    def ensures(res, *, n, K):
        H = jnp.asarray([[1.0 / (i + j + K + 1) for j in range(n)] for i in range(n)])
        mask = jnp.triu(jnp.ones((n, n)), k=1)
        return [eq("lower_triangular", res * mask, 0.0), eq("gram_is_hilbert", res @ res.T, H)]

    def instances(tier):
        out = []
        for n in ([1, 2, 3, 4] if tier == "quick" else list(range(1, 12))):
            for K in (0,) if tier == "quick" else (0, 1, 2):
                out.append(Instance(f"n={n},K={K}", lambda rng, n=n, K=K: ((), {"n": n, "K": K})))
        return out

    return Contract(name=f"{CU}:cholesky_hilbert", module=CU, qualname="cholesky_hilbert", wrap=wrap, ensures=ensures, instances=instances,
                    doc="L lower-triangular with (L L^T)[i,j] = 1/(i+j+K+1), exactly (sqrt(odd) as algebraic atoms)")


# ---- system_matrices_1d_iwp / preconditioner ---------------------------------------------------


def taylor_matrix(q, h):
    """exp(h N): T[i,j] = h^(j-i)/(j-i)! for j >= i."""
    rows = []
    for i in range(q + 1):
        rows.append([h ** (j - i) / math.factorial(j - i) if j >= i else 0.0 * h for j in range(q + 1)])
    return jnp.asarray(rows) if not hasattr(h, "shape") else jnp.stack([jnp.stack([jnp.asarray(x) * jnp.ones(()) for x in r]) for r in rows])


def wiener_noise(q, h):
    """int_0^h exp(sN) e_q e_q^T exp(sN)^T ds: Qh[i,j] = h^(2q+1-i-j) / ((2q+1-i-j) (q-i)! (q-j)!)."""
    rows = []
    for i in range(q + 1):
        rows.append([h ** (2 * q + 1 - i - j) / ((2 * q + 1 - i - j) * math.factorial(q - i) * math.factorial(q - j)) for j in range(q + 1)])
    return jnp.stack([jnp.stack([jnp.asarray(x) * jnp.ones(()) for x in r]) for r in rows])


def _system_contract():
    def wrap(target):
        def f(*, q):
            return target(q)

        return f

    def ensures(res, *, q):
        A, Q = res
        Aexp = jnp.asarray([[math.comb(q - i, j - i) if j >= i else 0 for j in range(q + 1)] for i in range(q + 1)], dtype=float)
        Hflip = jnp.asarray([[1.0 / (2 * q + 1 - i - j) for j in range(q + 1)] for i in range(q + 1)])
        mask = jnp.triu(jnp.ones((q + 1, q + 1)), k=1)
        return [eq("A_is_flipped_pascal", A, Aexp), eq("Q_lower_triangular", Q * mask, 0.0), eq("QQT_is_flipped_hilbert", Q @ Q.T, Hflip)]

    def instances(tier):
        return [Instance(f"q={q}", lambda rng, q=q: ((), {"q": q})) for q in _orders(tier)]

    return Contract(name=f"{UT}:system_matrices_1d_iwp", module=UT, qualname="system_matrices_1d_iwp", wrap=wrap, ensures=ensures, instances=instances,
                    doc="A[i,j] = C(q-i, j-i); Q Q^T = flipped Hilbert matrix")


def _precon_contract():
    def wrap(target):
        def f(dt, *, q):
            return target(q)(dt)

        return f

    def ensures(res, dt, *, q):
        p, pinv = res
        pe = jnp.stack([dt ** (q - i) / math.factorial(q - i) for i in range(q + 1)])
        return [eq("scaling", p, pe), eq("inverse", p * pinv, 1.0)]

    def instances(tier):
        return [Instance(f"q={q}", lambda rng, q=q: ((jnp.asarray(rng.uniform(0.1, 1.0)),), {"q": q}), positive=lambda a, k: [a[0]], names=lambda a, k: {id(a[0]): "h"}) for q in _orders(tier)]

    return Contract(name=f"{UT}:preconditioner_taylor", module=UT, qualname="preconditioner_taylor", wrap=wrap, ensures=ensures, instances=instances,
                    doc="p_i = h^(q-i)/(q-i)! and p * p_inv = 1")


# ---- transition() of the three Wiener priors, built by the real constructors inside the trace ----


def _build_prior(L, q, d, base, explicit_std=False):
    import probdiffeq.probdiffeq as pd

    ssm = {DenseL: pd.state_space_model_dense, IsoL: pd.state_space_model_isotropic, BlockL: pd.state_space_model_blockdiag}[L]()
    tcoeffs = [jnp.zeros((d,)) + 0.1 * i for i in range(q + 1)]
    if explicit_std:  # the constructor that takes the initial standard deviations explicitly
        stds = [(jnp.ones(()) if L is IsoL else jnp.ones((d,))) * 0.3 for _ in tcoeffs]
        return ssm.prior_wiener_integrated_diffuse(tcoeffs, stds, output_scale=base)
    if L is IsoL:
        return ssm.prior_wiener_integrated(tcoeffs, output_scale=base)
    return ssm.prior_wiener_integrated(tcoeffs, output_scale=base)


def transition_contract(L, explicit_std=False):
    mod = L.module
    cls = {DenseL: "DenseWienerIntegrated", IsoL: "IsotropicWienerIntegrated", BlockL: "BlockDiagWienerIntegrated"}[L]

    def wrap(target):
        def f(h, sigma, base, *, q, d):
            prior = _build_prior(L, q, d, base, explicit_std)
            return target(prior, dt=h, output_scale=sigma)

        return f

    def expected(h, sigma, base, q, d):
        T = taylor_matrix(q, h)
        Qh = wiener_noise(q, h)
        if L is DenseL:
            return jnp.kron(T, jnp.eye(d)), jnp.kron(Qh, jnp.diag(base * base)) * sigma * sigma
        if L is IsoL:
            return T, Qh * (sigma * base) ** 2
        return jnp.broadcast_to(T, (d,) + T.shape), Qh[None, :, :] * ((sigma * base) ** 2)[:, None, None]

    def ensures(res, h, sigma, base, *, q, d):
        A, b, Q = law(L, res)
        Te, Qe = expected(h, sigma, base, q, d)
        return [eq("transition_matrix_is_exp(hN)", A, Te), eq("offset_zero", b, 0.0), eq("process_noise_is_exact_gramian", Q, Qe),
                gt("to_latent_positive", res.to_latent), gt("to_observed_positive", res.to_observed)]

    def instances(tier):
        out = []
        fam = [(0, 1), (1, 1), (1, 2), (2, 2), (3, 1)] if tier == "quick" else [(q, d) for q in range(0, 11) for d in ((1, 2) if q <= 4 else (1,))]
        if explicit_std:
            fam = [(1, 2)] if tier == "quick" else [(1, 2), (2, 1)]
        for q, d in fam:
            def make(rng, q=q, d=d):
                sigma = jnp.asarray(rng.uniform(0.5, 2.0, size=(d,) if L is BlockL else ()))
                base = jnp.asarray(rng.uniform(0.5, 2.0, size=() if L is IsoL else (d,)))
                return (jnp.asarray(rng.uniform(0.1, 1.0)), sigma, base), {"q": q, "d": d}
            out.append(Instance(f"q={q},d={d}", make, positive=lambda a, k: [a[0], a[1], a[2]], names=lambda a, k: {id(a[0]): "h", id(a[1]): "sigma", id(a[2]): "base"}))
        return out

    return Contract(name=f"{mod}:{cls}.transition" + ("[explicit_std]" if explicit_std else ""), module=mod, qualname=f"{cls}.transition", wrap=wrap, ensures=ensures, instances=instances,
                    doc="after removing the preconditioner: (exp(hN) (x) I, 0, sigma^2 base^2 (x) int exp(sN) e e^T exp(sN)^T ds), prior built by the real constructor")


def composition_contract(L):
    """transition(h2) o transition(h1) == transition(h1 + h2) in law (Chapman-Kolmogorov)."""
    mod = L.module
    cls = {DenseL: "DenseWienerIntegrated", IsoL: "IsotropicWienerIntegrated", BlockL: "BlockDiagWienerIntegrated"}[L]

    def wrap(target):
        def f(h1, h2, sigma, base, *, q, d):
            prior = _build_prior(L, q, d, base)
            c1 = target(prior, dt=h1, output_scale=sigma)
            c2 = target(prior, dt=h2, output_scale=sigma)
            c12 = target(prior, dt=h1 + h2, output_scale=sigma)
            return c2.merge(c1), c12

        return f

    def ensures(res, h1, h2, sigma, base, *, q, d):
        merged, direct = res
        A, b, Q = law(L, merged)
        A2, b2, Q2 = law(L, direct)
        return [eq("composed_transition_matrix", A, A2), eq("composed_offset", b, b2), eq("composed_process_noise", Q, Q2)]

    def instances(tier):
        out = []
        fam = [(1, 1), (2, 1), (1, 2)] if tier == "quick" else [(q, 1) for q in range(0, 7)] + [(1, 2)] + ([(2, 2)] if L is not G.DenseL else [])
        # (dense, q=2, d=2) needs > 20 GB and an hour under load (6x6 symbolic QR): left out, (1,2) and (2,1) cover both axes
        for q, d in fam:
            def make(rng, q=q, d=d):
                sigma = jnp.asarray(rng.uniform(0.5, 2.0, size=(d,) if L is BlockL else ()))
                base = jnp.asarray(rng.uniform(0.5, 2.0, size=() if L is IsoL else (d,)))
                return (jnp.asarray(rng.uniform(0.1, 1.0)), jnp.asarray(rng.uniform(0.1, 1.0)), sigma, base), {"q": q, "d": d}
            out.append(Instance(f"q={q},d={d}", make, positive=lambda a, k: list(a), names=lambda a, k: {id(a[0]): "h1", id(a[1]): "h2", id(a[2]): "sigma", id(a[3]): "base"}))
        return out

    return Contract(name=f"{mod}:{cls}.transition(compose)", module=mod, qualname=f"{cls}.transition", wrap=wrap, ensures=ensures, instances=instances,
                    callees=[G.BY_LAYOUT[L.tag]["merge"]],
                    doc="transition over h1 then h2 composes to the transition over h1+h2 (law level)")


def contracts():
    out = [_hilbert_contract(), _system_contract(), _precon_contract()]
    for L in G.LAYOUTS:
        out += [transition_contract(L), transition_contract(L, explicit_std=True), composition_contract(L)]
    return out


# --------------------------------------------------------------------------------------
# initial random variable of the prior constructors (C02: exact / inexact / diffuse initial conditions)
# --------------------------------------------------------------------------------------


def prior_init_contract(L, mode, ctor="wiener"):
    """ctor in {'wiener', 'ou', 'matern', 'general'} (the exponential priors exist for the dense model only);
    mode in {'exact', 'inexact', 'flags', 'diffuse'}: the initial random variable is N(tcoeffs, diag(std^2)) with
    std = 0 (exact), inexact_eps (inexact), per-entry 0 / inexact_eps (boolean flags), and diffuse_eps for the
    coefficients added by diffuse_derivatives (whose means are zero); the base scale defaults to one."""
    mod = "probdiffeq.probdiffeq"
    fac = {DenseL: "state_space_model_dense", IsoL: "state_space_model_isotropic", BlockL: "state_space_model_blockdiag"}[L]

    def flags_for(n, d):
        if L is IsoL:
            return [jnp.asarray(i % 2 == 0) for i in range(n)]  # one flag per coefficient
        return [jnp.asarray([(i + j) % 2 == 0 for j in range(d)]) for i in range(n)]

    def wrap(target):
        def f(tcoeffs, eps, deps, *, n, d, k):
            ssm = target()
            kw = dict(inexact_eps=eps, diffuse_derivatives=k, diffuse_eps=deps)
            if mode == "explicit":
                # the constructors that take the standard deviations explicitly: std of coefficient i is (i+1) eps
                stds = [(jnp.ones(()) if L is IsoL else jnp.ones((d,))) * eps * (i + 1.0) for i in range(n)]
                kw = dict(diffuse_derivatives=k, diffuse_eps=deps)
                if ctor == "wiener":
                    prior = ssm.prior_wiener_integrated_diffuse(list(tcoeffs), stds, **kw)
                elif ctor == "ou":
                    W = jnp.asarray(np.random.default_rng(3).normal(size=(d, d)))
                    prior = ssm.prior_ornstein_uhlenbeck_integrated_diffuse(lambda u: W @ u, list(tcoeffs), stds, **kw)
                elif ctor == "matern":
                    prior = ssm.prior_matern_diffuse(0.7, list(tcoeffs), stds, **kw)
                else:
                    import probdiffeq.probdiffeq as pd

                    W = jnp.asarray(np.random.default_rng(4).normal(size=(n + k, d, d)))
                    ode = pd.ode_autonomous_order_arbitrary(lambda *us: sum(W[i] @ u for i, u in enumerate(us)), num_tcoeffs_in_args=n + k)
                    prior = ssm.prior_exponential_diffuse(ode, list(tcoeffs), stds, **kw)
                return prior.init.mean_flat, cov(L, prior.init), prior.output_scale
            if mode == "exact":
                kw["is_exact"] = True
            elif mode in ("inexact", "diffuse"):
                kw["is_exact"] = False
            else:
                kw["is_exact"] = flags_for(n, d)
            if ctor == "wiener":
                prior = ssm.prior_wiener_integrated(list(tcoeffs), **kw)
            elif ctor == "ou":
                W = jnp.asarray(np.random.default_rng(3).normal(size=(d, d)))
                prior = ssm.prior_ornstein_uhlenbeck_integrated(lambda u: W @ u, list(tcoeffs), **kw)
            elif ctor == "matern":
                prior = ssm.prior_matern(0.7, list(tcoeffs), **kw)
            else:
                import probdiffeq.probdiffeq as pd

                W = jnp.asarray(np.random.default_rng(4).normal(size=(n + k, d, d)))
                ode = pd.ode_autonomous_order_arbitrary(lambda *us: sum(W[i] @ u for i, u in enumerate(us)), num_tcoeffs_in_args=n + k)
                prior = ssm.prior_exponential(ode, list(tcoeffs), **kw)
            return prior.init.mean_flat, cov(L, prior.init), prior.output_scale

        return f

    def ensures(res, tcoeffs, eps, deps, *, n, d, k):
        from . import ivp

        mean, C, base = res
        N = n + k
        cs = ivp.coeffs(L, mean, N, d)
        cl = []
        for i in range(n):
            cl.append(eq(f"mean_of_given_coefficient_{i}", cs[i], tcoeffs[i]))
        for i in range(n, N):
            cl.append(eq(f"mean_of_added_coefficient_{i}_is_zero", cs[i], 0.0))
        # expected variances per coefficient (and per dimension where the layout has them)
        var = []
        for i in range(N):
            if i >= n:
                v = jnp.ones((d,)) * deps * deps
            elif mode == "explicit":
                v = jnp.ones((d,)) * (eps * (i + 1.0)) ** 2
            elif mode == "exact":
                v = jnp.zeros((d,))
            elif mode in ("inexact", "diffuse"):
                v = jnp.ones((d,)) * eps * eps
            else:
                fl = flags_for(n, d)[i]
                v = jnp.where(jnp.broadcast_to(fl, (d,)), 0.0, eps * eps)
            var.append(v)
        var = jnp.stack(var)  # (N, d)
        if L is DenseL:
            expected = jnp.diag(var.reshape(-1))
        elif L is IsoL:
            expected = jnp.diag(var[:, 0])
        else:
            expected = jax.vmap(jnp.diag)(var.T)
        cl.append(eq("initial_covariance_is_diag_of_squared_stds", C, expected))
        # the dense model stores the base scale as the diagonal matrix Lambda
        cl.append(eq("default_base_scale_is_one", base, jnp.eye(d) if L is DenseL else 1.0))
        return cl

    def instances(tier):
        out = []
        fam = [(2, 2, 1 if mode in ("diffuse", "explicit") else 0)] + ([(1, 2, 2 if mode == "diffuse" else 0), (3, 1, 1 if mode == "diffuse" else 0)] if tier == "thorough" else [])
        for n, d, k in fam:
            def make(rng, n=n, d=d, k=k):
                return (tuple(jnp.asarray(rng.normal(size=(d,))) for _ in range(n)), jnp.asarray(rng.uniform(0.01, 0.1)), jnp.asarray(rng.uniform(1.0, 3.0))), {"n": n, "d": d, "k": k}
            out.append(Instance(f"n={n},d={d},diffuse={k}", make, positive=lambda a, kw: [a[1], a[2]], names=lambda a, kw: {id(a[1]): "inexact_eps", id(a[2]): "diffuse_eps"}))
        return out

    cname = {"wiener": "prior_wiener_integrated", "ou": "prior_ornstein_uhlenbeck_integrated", "matern": "prior_matern", "general": "prior_exponential"}[ctor]
    return Contract(name=f"{mod}:{fac}.{cname}[init,{mode}]", module=mod, qualname=fac, wrap=wrap, ensures=ensures, instances=instances,
                    doc="initial random variable of the prior: given means, zero means for added coefficients, diagonal covariance with the documented standard deviations")


def init_contracts():
    out = [prior_init_contract(L, mode) for L in (DenseL, IsoL, BlockL) for mode in ("exact", "inexact", "flags", "diffuse")]
    # the exponential priors (dense model) take the same initial-condition options
    out += [prior_init_contract(DenseL, mode, ctor) for ctor in ("general", "ou", "matern") for mode in ("inexact", "flags", "diffuse", "explicit")]
    out += [prior_init_contract(L, "explicit") for L in (DenseL, IsoL, BlockL)]
    return out
