"""Contracts for jet-lifting and constraint constructors (C11): generic polynomial right-hand sides /
residuals with symbolic coefficients, arbitrary curve coefficients; oracle = total time derivative
along the prolonged curve via nested jax.jvp (independent of jax.experimental.jet)."""

import jax
import jax.numpy as jnp
import numpy as np

from vcgen import prims
from vcgen.harness import Contract, Instance, eq, holds

from .jets import poly_field

MOD = "probdiffeq._probdiffeq.problems"


def total_derivatives(g, coords, t, upto):
    """[g, Dg, ..., D^upto g] with D = d/dt + sum_j c_{j+1} d/dc_j along the curve with coefficients
    ``coords`` (c_0, c_1, ...); g takes (tuple of the first k coords, t)."""
    k = g.k
    J = len(coords)

    def velocity(cs):
        return tuple(cs[1:]) + (jnp.zeros_like(cs[-1]),)

    G = lambda cs, tt: g(cs[:k], tt)
    out = [G(tuple(coords), t)]
    for _ in range(upto):
        def Gn(cs, tt, G=G):
            return jax.jvp(G, (cs, tt), (velocity(cs), jnp.ones_like(tt)))[1]
        G = Gn
        out.append(G(tuple(coords), t))
    return out


def lift_contract(kind, via_max=False):
    """kind in {'ode', 'residual'}: lifting by m returns the 0..m-th total time derivatives.
    ``via_max``: the lift is requested through ``jet_lift_max(num_tcoeffs=...)`` (as many orders as a state with that
    many Taylor coefficients can constrain: outputs up to the highest coefficient)."""
    cls = "JetOde" if kind == "ode" else "JetResidual"

    def make_obj(coef, m, D, order):
        import probdiffeq.probdiffeq as pd

        field, _ = poly_field(m, D, order)
        g = lambda *a, t: field(*a, t, coef=coef)
        if kind == "ode":
            return {1: pd.ode, 2: pd.ode_order_two}[order](g)
        return {1: pd.residual_position, 2: pd.residual_velocity, 3: pd.residual_acceleration}[order](g)

    def wrap(target):
        def f(coef, coords, t, *, m, D, order, lift):
            obj = make_obj(coef, m, D, order)
            if via_max:
                # an ODE u^(k) = f(u..u^(k-1)) on a state with N coefficients constrains u^(k)..u^(N-1): N = k + lift + 1;
                # a residual on k coefficients lifted to all N of them: N = k + lift
                lifted = target(obj, num_tcoeffs=order + lift + (1 if kind == "ode" else 0))
            else:
                lifted = target(obj, lift_by=lift)
            fn = lifted.vector_field if kind == "ode" else lifted.residual_function
            out = fn(jet_coords=list(coords), t=t)
            meta = (lifted.num_tcoeffs_in_args, tuple(lifted.tcoeff_indices_output) if kind == "ode" else ())
            return [jnp.asarray(o) for o in out], jnp.asarray(meta[0]), jnp.asarray(meta[1], dtype=jnp.int32)

        return f

    def ensures(res, coef, coords, t, *, m, D, order, lift):
        outs, nargs, idx = res
        field, _ = poly_field(m, D, order)

        class g:
            k = order

            def __new__(cls, cs, tt):
                return field(*cs, tt, coef=coef)

        exp = total_derivatives(g, list(coords)[: order + lift], t, lift)  # surplus coefficients must be ignored
        cl = [holds("number_of_outputs", jnp.asarray(len(outs) == lift + 1)),
              holds("lifted_order_bookkeeping", nargs == order + lift)]
        if kind == "ode":
            cl.append(holds("output_indices_bookkeeping", jnp.all(idx == order + jnp.arange(lift + 1))))
        for j, (a, b) in enumerate(zip(outs, exp)):
            cl.append(eq(f"total_derivative_{j}", a, b))
        return cl

    def instances(tier):
        fam = [(1, 2, 1, 0), (1, 2, 1, 2), (2, 2, 1, 1), (1, 2, 2, 1)]
        if kind == "residual":
            fam = [(1, 2, 1, 1), (1, 2, 2, 2), (1, 2, 3, 1), (2, 2, 2, 1)]
        if tier == "thorough":
            fam += [(1, 3, 1, 3), (1, 2, 1, 5), (2, 2, 2, 2), (1, 3, 2, 3), (1, 2, 1, 4)]
        fam = [f + (0,) for f in fam] + [(1, 2, 1, 1, 1), (1, 2, 2, 0, 2)]  # last entry: surplus coefficients supplied
        out = []
        for m, D, order, lift, surplus in fam:
            def make(rng, m=m, D=D, order=order, lift=lift, surplus=surplus):
                _, nm = poly_field(m, D, order)
                ncoords = order + lift + surplus
                return (jnp.asarray(rng.normal(size=(m, nm))), tuple(jnp.asarray(rng.normal(size=(m,))) for _ in range(ncoords)), jnp.asarray(rng.normal())), {"m": m, "D": D, "order": order, "lift": lift}
            out.append(Instance(f"m={m},D={D},order={order},lift={lift}" + (f",surplus={surplus}" if surplus else ""), make, names=lambda a, k: {id(a[0]): "coef", id(a[2]): "t", **{id(x): f"c{i}" for i, x in enumerate(a[1])}}))
        return out

    meth = "jet_lift_max" if via_max else "jet_lift"
    return Contract(name=f"{MOD}:{cls}.{meth}", module=MOD, qualname=f"{cls}.{meth}", wrap=wrap, ensures=ensures, instances=instances,
                    doc="outputs of the lifted function are exactly the 0..m-th total time derivatives along any curve with the supplied Taylor coefficients (explicit time dependence included); index bookkeeping")


def residual_from_ode_contract():
    def wrap(target):
        def f(coords, t, *, d, order):
            import probdiffeq.probdiffeq as pd
            from .ivp import get_uf

            uf = get_uf(d, order)
            ode = {1: pd.ode, 2: pd.ode_order_two}[order](lambda *a, t: uf(*a, t))
            res = target(ode)
            return res.residual_function(jet_coords=list(coords), t=t)[0], jnp.asarray(res.num_tcoeffs_in_args)

        return f

    def ensures(res, coords, t, *, d, order):
        from .ivp import get_uf

        val, nargs = res
        return [eq("residual_is_highest_derivative_minus_rhs", val, coords[order] - get_uf(d, order)(*coords[:order], t)), holds("order_bookkeeping", nargs == order + 1)]

    def instances(tier):
        out = []
        for d, order in [(1, 1), (2, 2)]:
            out.append(Instance(f"d={d},order={order}", lambda rng, d=d, order=order: ((tuple(jnp.asarray(rng.normal(size=(d,))) for _ in range(order + 1)), jnp.asarray(rng.normal())), {"d": d, "order": order})))
        return out

    return Contract(name=f"{MOD}:residual_from_ode", module=MOD, qualname="residual_from_ode", wrap=wrap, ensures=ensures, instances=instances,
                    doc="u^(k) - f(u, ..., u^(k-1), t) for an uninterpreted f")


def residual_from_stack_contract():
    def wrap(target):
        def f(coords, t, *, d):
            import probdiffeq.probdiffeq as pd
            from .ivp import get_uf

            r1 = pd.residual_position(lambda y, *, t: get_uf(d, 1)(y, t))
            r2 = pd.residual_velocity(lambda y, dy, *, t: get_uf(d, 2)(y, dy, t))
            st = target(r2, r1)
            out = st.residual_function(jet_coords=list(coords), t=t)
            return out[0][0], out[1][0], jnp.asarray(st.num_tcoeffs_in_args)

        return f

    def ensures(res, coords, t, *, d):
        from .ivp import get_uf

        a, b, nargs = res
        return [eq("first_part_on_its_own_coefficients", a, get_uf(d, 2)(coords[0], coords[1], t)), eq("second_part_on_its_own_coefficients", b, get_uf(d, 1)(coords[0], t)), holds("order_is_max", nargs == 2)]

    def instances(tier):
        return [Instance("d=2", lambda rng: ((tuple(jnp.asarray(rng.normal(size=(2,))) for _ in range(3)), jnp.asarray(rng.normal())), {"d": 2}))]

    return Contract(name=f"{MOD}:residual_from_stack", module=MOD, qualname="residual_from_stack", wrap=wrap, ensures=ensures, instances=instances,
                    doc="stacked residuals evaluate each part on its own leading coefficients")


_G = {}


def _uf(m, k, time):
    from vcgen import prims

    key = (m, k, time)
    if key not in _G:
        def native(*args):
            xs = args[:k]
            out = sum(jnp.sin(x * (0.3 + 0.1 * i)) for i, x in enumerate(xs))
            return out * (1.0 + (0.2 * args[k] if time else 0.0))
        _G[key] = prims.make_uf(f"g_m{m}_k{k}_{'t' if time else 'aut'}", [(m,)] * k, (m,), native=native, time_arg=time)
    return _G[key]


def constructor_contract(name, k, time=True, surplus=0):
    """The problem constructors wrap a user function of (u, u', ..., [t]) into the jet-coordinate interface: value,
    number of coefficients consumed and index of the constrained coefficient are as documented."""
    m = 2

    def wrap(target):
        def f(coords, t):
            g = _uf(m, k, time)
            user = (lambda *a, t: g(*a, t)) if time else (lambda *a: g(*a))
            kw = {"num_tcoeffs_in_args": k} if "arbitrary" in name else {}
            obj = target(user, **kw)
            cs = list(coords) if "arbitrary" in name else list(coords)[:k]
            if hasattr(obj, "residual_function"):
                out = obj.residual_function(jet_coords=cs, t=t)
                idx = jnp.zeros((0,), dtype=jnp.int32)
            elif time:
                out = obj.vector_field(jet_coords=cs, t=t)
                idx = jnp.asarray(obj.tcoeff_indices_output, dtype=jnp.int32)
            else:
                # autonomous descriptions: the time-free callable and the (u, t) interface must agree
                a = obj.autonomous(jet_coords=cs)
                b = obj.vector_field(jet_coords=cs, t=t)
                out = [a if not isinstance(a, (list, tuple)) else a[0], b if not isinstance(b, (list, tuple)) else b[0]]
                idx = jnp.asarray(obj.tcoeff_indices_output, dtype=jnp.int32)
            return [jnp.asarray(o) for o in out], jnp.asarray(obj.num_tcoeffs_in_args), idx

        return f

    def ensures(res, coords, t):
        outs, nargs, idx = res
        g = _uf(m, k, time)
        val = g(*coords[:k], t) if time else g(*coords[:k])
        cl = [holds("one_output", jnp.asarray(len(outs) == (1 if time else 2))), eq("value_is_the_user_function_of_the_leading_coefficients", outs[0], val), holds("number_of_coefficients_consumed", nargs == k)]
        if not time:
            cl.append(eq("time_interface_ignores_t", outs[1], val))
        if idx.shape[0]:
            cl.append(holds("constrained_coefficient_is_u^(k)", jnp.all(idx == k)))
        return cl

    def instances(tier):
        def make(rng):
            return (tuple(jnp.asarray(rng.normal(size=(m,))) for _ in range(k + surplus)), jnp.asarray(rng.normal())), {}
        return [Instance(f"k={k},surplus={surplus}", make)]

    return Contract(name=f"{MOD}:{name}", module=MOD, qualname=name, wrap=wrap, ensures=ensures, instances=instances,
                    doc="constructor wraps f(u, ..., u^(k-1)[, t]) into the jet interface: value, arity, constrained coefficient")


def constructor_contracts():
    return [constructor_contract("ode", 1), constructor_contract("ode_order_two", 2), constructor_contract("ode_order_arbitrary", 3, surplus=1),
            constructor_contract("ode_autonomous", 1, time=False), constructor_contract("ode_autonomous_order_two", 2, time=False),
            constructor_contract("ode_autonomous_order_arbitrary", 2, time=False, surplus=1),
            constructor_contract("residual_position", 1), constructor_contract("residual_velocity", 2), constructor_contract("residual_acceleration", 3)]


def contracts():
    return constructor_contracts() + [lift_contract("ode"), lift_contract("residual"), lift_contract("ode", via_max=True), lift_contract("residual", via_max=True), residual_from_ode_contract(), residual_from_stack_contract()]
