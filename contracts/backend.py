"""Delegation contracts for the backend wrappers that the generator abstracts as kernels.

Everywhere else ``probdiffeq.backend.linalg.{qr_r, solve_triu, solve_tril, solve_lu, lstsq_svd}`` and
``probdiffeq.backend.np.hypot`` are replaced by opaque kernels with an *assumed* contract (``prims.KERNEL_DOC``).
The assumption is about the JAX routine behind the wrapper; the wrapper's own body is repository code and is put
under contract here:  the wrapper returns exactly what the documented JAX routine returns on the same operands in the
same order, called with the documented options (no truncation threshold passed to ``lstsq``, ``mode="r"`` for the QR
factor, ``lower`` / ``trans`` of the triangular solves as named, nothing else).

The JAX routine is patched, for the duration of the trace, by a recording external function (an uninterpreted function
of its array operands, memoised so that the specification obtains the same symbols); natively it is the real routine.
A property check runs the delegation contract of every kernel its units used (scheduled by the CLI from the units'
kernel logs), so a change inside a wrapper fails an obligation of each property that relies on the kernel.
"""

import jax
import jax.numpy as jnp
import numpy as np

from vcgen import interp, prims
from vcgen.harness import Contract, Instance, eq, holds

LM = "probdiffeq.backend.linalg"
NM = "probdiffeq.backend.np"
_CACHE = {}


def _external(name, native, out_shape):
    """Uninterpreted function of its array operands (memoised); natively the real library routine."""

    def handler(ctx, prm, *xs):
        xs = [x if interp.is_obj(x) else interp.to_obj(x) for x in xs]
        key = (name, tuple(x.shape for x in xs), tuple(v.p.key() for x in xs for v in x.reshape(-1)))
        hit = _CACHE.get(key)
        if hit is None:
            shape = tuple(out_shape(*[x.shape for x in xs]))
            hit, sids = prims.fresh_array(shape, f"{name}{len(_CACHE)}_", kind="uf")
            _CACHE[key] = hit
            prims.CALL_LOG.append({"name": f"external::{name}", "operands": xs, "out_sids": [sids], "native": lambda *a: [np.asarray(native(*[jnp.asarray(v) for v in a]))]})
        return [hit]

    prims.BASE_HANDLERS[f"external_{name}"] = handler

    def call(*xs):
        xs = [jnp.asarray(x, dtype=jnp.result_type(float)) for x in xs]
        if not prims.MODE.symbolic:
            return jnp.asarray(native(*xs))
        shape = tuple(out_shape(*[jnp.shape(x) for x in xs]))
        (o,) = prims.bind_opaque(f"external_{name}", xs, [jax.ShapeDtypeStruct(shape, jnp.result_type(float))], static=())
        return o

    return call


_orig_reset = prims.reset


def _reset():
    _orig_reset()
    _CACHE.clear()


prims.reset = _reset

# real routines, resolved once (the patches below replace the module attributes only while a wrapper is traced)
_REAL = {
    "lstsq": jnp.linalg.lstsq,
    "qr": jnp.linalg.qr,
    "solve": jnp.linalg.solve,
    "solve_triangular": jax.scipy.linalg.solve_triangular,
    "hypot": jnp.hypot,
}

EXT = {
    "lstsq": _external("lstsq", lambda H, r: _REAL["lstsq"](H, r)[0], lambda H, r: (H[1],) + tuple(r[1:])),
    "qr_r": _external("qr_r", lambda M: _REAL["qr"](M, mode="r"), lambda M: (min(M), M[1])),
    "qr_q": _external("qr_q", lambda M: _REAL["qr"](M, mode="reduced")[0], lambda M: (M[0], min(M))),
    "solve": _external("solve", lambda A, b: _REAL["solve"](A, b), lambda A, b: b),
    "hypot": _external("hypot", lambda a, b: _REAL["hypot"](a, b), lambda a, b: np.broadcast_shapes(a, b)),
}
for _lower in (False, True):
    for _trans in (0, 1):
        EXT[f"tri[lower={_lower},trans={_trans}]"] = _external(
            f"tri_l{int(_lower)}_t{_trans}", lambda A, b, lo=_lower, tr=_trans: _REAL["solve_triangular"](A, b, lower=lo, trans=tr), lambda A, b: b
        )


class _Patch:
    """Replace ``owner.attr`` by ``fake`` while the wrapper under contract runs."""

    def __init__(self, owner, attr, fake):
        self.owner, self.attr, self.fake = owner, attr, fake

    def __enter__(self):
        self.old = getattr(self.owner, self.attr)
        setattr(self.owner, self.attr, self.fake)

    def __exit__(self, *exc):
        setattr(self.owner, self.attr, self.old)


def _unwrapped(target):
    orig = getattr(target, "__vc_orig__", None)
    if orig is None:
        orig = prims.ORIG.get(getattr(target, "__name__", ""), target)  # the random wrappers are stubbed by name
    return orig


def _delegation(kernel, module, qualname, owner, attr, make_fake, call, spec, documented, instances_fn, also=None):
    REC = {}

    def wrap(target):
        def f(*arrays, **static):
            import contextlib

            REC.clear()
            with contextlib.ExitStack() as stack:
                stack.enter_context(_Patch(owner, attr, make_fake(REC)))
                for o, a, fk in (also(REC) if also else []):  # sibling routines: a call to one of them is recorded as such
                    stack.enter_context(_Patch(o, a, fk))
                out = call(_unwrapped(target), arrays, static)
            ok = documented(REC, arrays, static)
            return out, jnp.asarray(bool(ok))

        return f

    def ensures(res, *arrays, **static):
        out, ok = res
        return [eq("result_is_what_the_documented_library_routine_returns_on_the_same_operands", out, spec(arrays, static)),
                holds("library_routine_called_once_with_the_documented_options", ok)]

    return Contract(name=f"{module}:{qualname}[delegation]", module=module, qualname=qualname, wrap=wrap, ensures=ensures, instances=instances_fn,
                    doc=f"backend wrapper of the kernel '{kernel}': {prims.KERNEL_DOC.get(kernel, '')} -- the wrapper hands its operands, in order, to the documented JAX routine with the documented options and returns its result unchanged (the kernel contract is assumed for that routine)")


def _inst(name, shapes, **static):
    def make(rng):
        return tuple(jnp.asarray(rng.normal(size=s)) for s in shapes), dict(static)

    return Instance(name, make)


def lstsq_contract():
    import jax.numpy.linalg as owner

    def make_fake(REC):
        def fake(*a, **kw):
            REC.setdefault("calls", []).append((len(a), dict(kw)))
            if not prims.MODE.symbolic:
                return _REAL["lstsq"](*a, **kw)
            x = EXT["lstsq"](*a[:2])
            return x, jnp.zeros(()), jnp.zeros((), dtype=jnp.int32), jnp.zeros((min(jnp.shape(a[0])),))

        return fake

    def documented(REC, arrays, static):
        calls = REC.get("calls", [])
        if len(calls) != 1 or calls[0][0] != 2:
            return False
        for k, v in calls[0][1].items():
            if v is None or (k == "numpy_resid" and v is False):
                continue
            if k == "rcond":  # the documented default spelled out: machine epsilon of the operands' dtype times max(M, N)
                try:
                    default = float(jnp.finfo(jnp.result_type(arrays[0])).eps) * max(jnp.shape(arrays[0]))
                    if abs(float(v) - default) <= 1e-6 * default:
                        continue
                except Exception:
                    pass
            return False
        return True

    return _delegation("lstsq_svd", LM, "lstsq_svd", owner, "lstsq", make_fake, lambda t, arrays, static: t(*arrays), lambda arrays, static: EXT["lstsq"](*arrays), documented,
                       lambda tier: [_inst("H=(3,2),r=(3,)", [(3, 2), (3,)]), _inst("H=(2,3),r=(2,)", [(2, 3), (2,)]), _inst("H=(2,2),r=(2,2)", [(2, 2), (2, 2)])])


def qr_contract():
    import jax.numpy.linalg as owner

    def make_fake(REC):
        def fake(*a, **kw):
            REC.setdefault("calls", []).append((len(a), dict(kw)))
            if not prims.MODE.symbolic:
                return _REAL["qr"](*a, **kw)
            mode = kw.get("mode", a[1] if len(a) > 1 else "reduced")
            return EXT["qr_r"](a[0]) if mode == "r" else (EXT["qr_q"](a[0]), EXT["qr_r"](a[0]))

        return fake

    def documented(REC, arrays, static):
        calls = REC.get("calls", [])
        # mode="reduced" returns the same triangular factor next to Q; which one is handed back is decided by the eq clause
        return len(calls) == 1 and calls[0][0] == 1 and calls[0][1] in ({"mode": "r"}, {"mode": "reduced"}, {})

    return _delegation("qr_r", LM, "qr_r", owner, "qr", make_fake, lambda t, arrays, static: t(*arrays), lambda arrays, static: EXT["qr_r"](*arrays), documented,
                       lambda tier: [_inst("M=(3,2)", [(3, 2)]), _inst("M=(2,3)", [(2, 3)]), _inst("M=(2,2)", [(2, 2)])])


def tri_contract(lower):
    import jax.scipy.linalg as owner

    name = "solve_tril" if lower else "solve_triu"

    def make_fake(REC):
        def fake(*a, **kw):
            REC.setdefault("calls", []).append((len(a), dict(kw)))
            if not prims.MODE.symbolic:
                return _REAL["solve_triangular"](*a, **kw)
            lo, tr = bool(kw.get("lower", False)), kw.get("trans", 0)
            tr = {"N": 0, "T": 1}.get(tr, tr)
            return EXT[f"tri[lower={lo},trans={1 if tr else 0}]"](*a[:2])

        return fake

    def documented(REC, arrays, static):
        calls = REC.get("calls", [])
        if len(calls) != 1 or calls[0][0] != 2:
            return False
        kw = dict(calls[0][1])
        lo, tr = kw.pop("lower", False), kw.pop("trans", 0)
        harmless = {"unit_diagonal": False, "overwrite_b": False, "check_finite": True, "debug": None}
        return lo is lower and tr == static.get("trans", 0) and all(k in harmless and (v == harmless[k] or k in ("overwrite_b", "check_finite", "debug")) for k, v in kw.items())

    def call(t, arrays, static):
        return t(*arrays, **static) if static else t(*arrays)

    def spec(arrays, static):
        return EXT[f"tri[lower={lower},trans={static.get('trans', 0)}]"](*arrays)

    return _delegation(name, LM, name, owner, "solve_triangular", make_fake, call, spec, documented,
                       lambda tier: [_inst("A=(2,2),b=(2,),trans default", [(2, 2), (2,)]), _inst("A=(2,2),b=(2,),trans=0", [(2, 2), (2,)], trans=0), _inst("A=(3,3),b=(3,2),trans=1", [(3, 3), (3, 2)], trans=1)])


def solve_contract():
    import jax.numpy.linalg as owner

    def make_fake(REC):
        def fake(*a, **kw):
            REC.setdefault("calls", []).append((len(a), dict(kw)))
            if not prims.MODE.symbolic:
                return _REAL["solve"](*a, **kw)
            return EXT["solve"](*a[:2])

        return fake

    def documented(REC, arrays, static):
        calls = REC.get("calls", [])
        return len(calls) == 1 and calls[0] == (2, {})

    return _delegation("solve_lu", LM, "solve_lu", owner, "solve", make_fake, lambda t, arrays, static: t(*arrays), lambda arrays, static: EXT["solve"](*arrays), documented,
                       lambda tier: [_inst("A=(2,2),b=(2,)", [(2, 2), (2,)]), _inst("A=(3,3),b=(3,2)", [(3, 3), (3, 2)])])


def hypot_contract():
    import jax.numpy as owner

    def make_fake(REC):
        def fake(*a, **kw):
            REC.setdefault("calls", []).append((len(a), dict(kw)))
            if not prims.MODE.symbolic:
                return _REAL["hypot"](*a, **kw)
            return EXT["hypot"](*a[:2])

        return fake

    def documented(REC, arrays, static):
        calls = REC.get("calls", [])
        return len(calls) == 1 and calls[0] == (2, {})

    return _delegation("hypot", NM, "hypot", owner, "hypot", make_fake, lambda t, arrays, static: t(*arrays), lambda arrays, static: EXT["hypot"](*arrays), documented,
                       lambda tier: [_inst("a=(),b=()", [(), ()]), _inst("a=(2,),b=(2,)", [(2,), (2,)]), _inst("a=(2,1),b=(3,)", [(2, 1), (3,)])])


def random_contract(which):
    """``random.{normal, rademacher, split, prng_key}``: the draw / split / key of the documented ``jax.random`` routine
    for the same key, shape (number of keys, seed) and dtype.  The routine is replaced by the kernel the rest of
    the verification uses for it (fresh symbols indexed by key and shape), so any other key, shape or routine differs."""
    import jax.random as owner

    RM = "probdiffeq.backend.random"
    real = {"normal": owner.normal, "rademacher": owner.rademacher, "split": owner.split, "prng_key": owner.PRNGKey}[which]
    attr = "PRNGKey" if which == "prng_key" else which

    def stub(*a, **kw):
        import probdiffeq.backend.random as R

        return getattr(R, which)(*a, **kw)

    def fake_of(name, REC, primary):
        import probdiffeq.backend.random as R

        real_r = {"normal": owner.normal, "rademacher": owner.rademacher, "split": owner.split, "prng_key": owner.PRNGKey}[name]

        def fake(*a, **kw):
            REC.setdefault("calls" if primary else "other_routines", []).append((a, dict(kw)))
            if not prims.MODE.symbolic:
                return real_r(*a, **kw)
            st = getattr(R, name)
            if name in ("normal", "rademacher"):
                shape = kw.get("shape", a[1] if len(a) > 1 else ())
                return st(a[0], shape=shape, dtype=jnp.result_type(float))
            if name == "split":
                return st(a[0], kw.get("num", a[1] if len(a) > 1 else 2))
            return st(seed=kw.get("seed", a[0] if a else 0))

        return fake

    def make_fake(REC):
        return fake_of(which, REC, True)

    def also(REC):
        return [(owner, "PRNGKey" if n == "prng_key" else n, fake_of(n, REC, False)) for n in ("normal", "rademacher", "split", "prng_key") if n != which]

    def call(t, arrays, static):
        if which in ("normal", "rademacher"):
            return t(arrays[0], shape=static["shape"], dtype=jnp.result_type(float))
        if which == "split":
            return t(arrays[0], static["num"])
        return t(seed=static["seed"])

    def spec(arrays, static):
        if which in ("normal", "rademacher"):
            return stub(arrays[0], shape=static["shape"], dtype=jnp.result_type(float))
        if which == "split":
            return stub(arrays[0], static["num"])
        return stub(seed=static["seed"])

    def documented(REC, arrays, static):
        calls = REC.get("calls", [])
        if len(calls) != 1 or REC.get("other_routines"):
            return False
        a, kw = calls[0]
        if which in ("normal", "rademacher"):
            shape = kw.get("shape", a[1] if len(a) > 1 else None)
            dt = kw.get("dtype", a[2] if len(a) > 2 else None)
            return a[0] is arrays[0] and shape is not None and tuple(shape) == tuple(static["shape"]) and (dt is None or jnp.dtype(dt) == jnp.dtype(jnp.result_type(float)))
        if which == "split":
            return a[0] is arrays[0] and kw.get("num", a[1] if len(a) > 1 else 2) == static["num"]
        return kw.get("seed", a[0] if a else None) == static["seed"]

    def instances(tier):
        def key_inst(name, **static):
            def make(rng):
                return (prims.ORIG["prng_key"](seed=3),), dict(static)

            return Instance(name, make)

        if which in ("normal", "rademacher"):
            return [key_inst("shape=(2,)", shape=(2,)), key_inst("shape=(2,3)", shape=(2, 3)), key_inst("shape=()", shape=())]
        if which == "split":
            return [key_inst("num=2", num=2), key_inst("num=3", num=3)]
        return [Instance("seed=5", lambda rng: ((), {"seed": 5}))]

    return _delegation(which, RM, which, owner, attr, make_fake, call, spec, documented, instances, also=also)


_BY_KERNEL = None


def by_kernel():
    """kernel name (as logged by the units) -> delegation contract of the wrapper behind it."""
    global _BY_KERNEL
    if _BY_KERNEL is None:
        _BY_KERNEL = {"lstsq_svd": lstsq_contract(), "qr_r": qr_contract(), "solve_triu": tri_contract(False), "solve_tril": tri_contract(True), "solve_lu": solve_contract(), "hypot": hypot_contract()}
        _BY_KERNEL["lstsq_z"] = _BY_KERNEL["lstsq_svd"]  # ghost witness of the same call
        for which in ("normal", "rademacher", "split", "prng_key"):
            _BY_KERNEL[which] = random_contract(which)
    return _BY_KERNEL


def contracts():
    seen, out = set(), []
    for c in by_kernel().values():
        if c.name not in seen:
            seen.add(c.name)
            out.append(c)
    return out


def by_name():
    return {c.name: c for c in contracts()}
