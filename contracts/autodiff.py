"""Contracts for the only hand-written differentiation rule of the repository (C16): qr_r_jvp."""

import jax
import jax.numpy as jnp
import numpy as np

from vcgen.harness import Contract, Instance, eq, holds

MOD = "probdiffeq.backend.linalg"


def qr_r_jvp_contract():
    def wrap(target):
        def f(M, M_dot):
            return target((M,), (M_dot,))

        return f

    def ensures(res, M, M_dot):
        R, R_dot = res
        k, n = R.shape
        lower = jnp.tril(jnp.ones((k, n)), k=-1)
        return [
            eq("primal_upper_triangular", R * lower, 0.0),
            eq("primal_gram", R.T @ R, M.T @ M),
            # derivative of the kernel contract  R upper /\\ R^T R = M^T M  along (M, M_dot):
            eq("tangent_of_gram_identity", R_dot.T @ R + R.T @ R_dot, M_dot.T @ M + M.T @ M_dot),
            eq("tangent_upper_triangular", R_dot * lower, 0.0),
        ]

    def instances(tier):
        out = []
        for m, n in [(2, 2), (3, 2)] + ([(3, 3), (4, 2)] if tier == "thorough" else []):
            out.append(Instance(f"m={m},n={n}", lambda rng, m=m, n=n: ((jnp.asarray(rng.normal(size=(m, n))), jnp.asarray(rng.normal(size=(m, n)))), {}), names=lambda a, k: {id(a[0]): "M", id(a[1]): "Mdot"}))
        return out

    return Contract(name=f"{MOD}:qr_r_jvp", module=MOD, qualname="qr_r_jvp", wrap=wrap, ensures=ensures, instances=instances,
                    doc="the custom JVP of qr_r must be the derivative of 'R upper-triangular with R^T R = M^T M'")


def contracts():
    return [qr_r_jvp_contract()]
