"""Contracts for probdiffeq.util.cholesky_util (right square-root factors, A = R^T R)."""

import jax.numpy as jnp
import numpy as np

from vcgen import harness as H, prims
from vcgen.harness import Contract, Instance, cancel, eq, ge, holds

MOD = "probdiffeq.util.cholesky_util"


def _upper(name, R):
    n, m = R.shape
    mask = jnp.tril(jnp.ones((n, m)), k=-1)
    return eq(name, R * mask)


# ---- sum_of_sqrtm_factors -------------------------------------------------------------------


def _sum_ensures(R, R_stack):
    S = sum(r.T @ r for r in R_stack)
    return [_upper("upper_triangular", R), eq("gram", R.T @ R, S)]


def _sum_instances(tier):
    shapes = [((1, 2), (2, 2)), ((2, 2), (2, 2))]
    if tier == "thorough":
        shapes += [((3, 3), (3, 3)), ((2, 3), (3, 3), (1, 3)), ((4, 4), (4, 4))]
    out = []
    for sh in shapes:
        def make(rng, sh=sh):
            return (tuple(jnp.asarray(rng.normal(size=s)) for s in sh),), {}
        out.append(Instance(name=f"shapes={sh}", make=make))
    return out


sum_of_sqrtm_factors = Contract(
    name=f"{MOD}:sum_of_sqrtm_factors",
    module=MOD,
    qualname="sum_of_sqrtm_factors",
    ensures=lambda R, R_stack: _sum_ensures(R, R_stack),
    instances=_sum_instances,
    doc="R upper-triangular with R^T R = sum_i R_i^T R_i",
)


# ---- revert_conditional ---------------------------------------------------------------------


def _revert_ensures(result, R_X_F=None, R_X=None, R_YX=None, *, solve_triu=None):
    R_Y, (R_XY, G) = result
    S = R_YX.T @ R_YX + R_X_F.T @ R_X_F  # marginal covariance of Y
    P = R_X.T @ R_X  # covariance of X
    C = R_X.T @ R_X_F  # Cov(X, Y)
    cl = [
        _upper("R_Y_upper", R_Y),
        _upper("R_XY_upper", R_XY),
        eq("marginal_gram", R_Y.T @ R_Y, S),
        eq("gain_equation", G @ S, C),
    ]
    if _is_lstsq(solve_triu) and not H.assuming():
        # least-squares gain: G^T solves R_Y^T R_Y G^T = R_Y^T R12 only in the normal-equation sense.  With a
        # non-singular innovation factor (ghost inverse, inherited precondition) the residual R12 - R_Y G^T
        # vanishes by left cancellation of R_Y^T; the posterior Gram identity then follows as in the triangular case.
        # R12: the block to the right of R_Y in the triangular factor R_Y was cut from (found by role, not by
        # repeating how the code assembles the argument of the QR kernel); natively it is the solution of
        # R_Y^T R12 = Cov(Y, X) (unique for a non-singular R_Y)
        k, n = R_YX.shape[0], R_X.shape[0]
        if prims.MODE.symbolic:
            R12 = prims.ghost_parent(R_Y, "qr_r", (k + n, k + n))[:k, k:]
        else:
            R12 = jnp.linalg.solve(R_Y.T, C.T)
        V = prims.ghost_inverse(R_Y)
        cl.append(cancel("lstsq_residual_vanishes", R12 - R_Y @ G.T, R_Y.T, V.T))
    cl.append(eq("posterior_gram", R_XY.T @ R_XY, P - G @ S @ G.T))
    return cl


def _is_lstsq(fn):
    import probdiffeq.backend.linalg as L

    return fn is L.lstsq_svd


def _revert_instances(tier):
    nk = [(1, 1), (2, 1), (2, 2)]
    if tier == "thorough":
        nk += [(3, 1), (3, 2), (3, 3), (4, 2)]
    out = []
    for n, k in nk:
        def make(rng, n=n, k=k):
            import probdiffeq.backend.linalg as L

            kw = dict(
                R_X_F=jnp.asarray(rng.normal(size=(n, k))),
                R_X=jnp.asarray(rng.normal(size=(n, n))),
                R_YX=jnp.asarray(rng.normal(size=(k, k))),
                solve_triu=L.solve_triu,
            )
            return (), kw
        out.append(Instance(name=f"n={n},k={k}", make=make))
    for n, k in nk[: (3 if tier == "quick" else 5)]:
        def make_ls(rng, n=n, k=k):
            import probdiffeq.backend.linalg as L

            return (), dict(R_X_F=jnp.asarray(rng.normal(size=(n, k))), R_X=jnp.asarray(rng.normal(size=(n, n))),
                            R_YX=jnp.asarray(rng.normal(size=(k, k))), solve_triu=L.lstsq_svd)
        out.append(Instance(name=f"n={n},k={k},lstsq", make=make_ls))
    return out


def solver_requires(solve_triu):
    """The contracts of ``revert_conditional`` / ``*.revert`` are proved for the two solvers the repository passes:
    the upper-triangular solve and the (minimum-norm) least-squares solve.  At a call site the solver argument has to
    behave like one of them: on a fixed non-singular upper-triangular probe it returns the solution of the system
    (stated through the normal equations, which both satisfy) -- a lower-triangular solve, which reads only the
    diagonal of the factor, does not.  Decided by what the argument computes, not by its identity, so a wrapper
    (lambda, partial) around an admissible solver is admissible."""
    R = jnp.asarray([[2.0, 1.0], [0.0, 3.0]])
    B = jnp.asarray([[1.0, -1.0], [1.0, 2.0]])
    X = solve_triu(R, B)
    return [eq("static:solver_argument_solves_upper_triangular_systems(2x2 probe)", R.T @ R @ X, R.T @ B)]


revert_conditional = Contract(
    name=f"{MOD}:revert_conditional",
    module=MOD,
    qualname="revert_conditional",
    requires=lambda R_X_F=None, R_X=None, R_YX=None, *, solve_triu=None: solver_requires(solve_triu),
    ensures=_revert_ensures,
    instances=_revert_instances,
    inherits=("solve_triu#", "ghost_inverse#"),
    doc="(R_Y, (R_XY, G)): R_Y^T R_Y = S, G S = Cov(X,Y), R_XY^T R_XY = P - G S G^T (inverse-free); also with the least-squares gain (solve_triu=lstsq_svd) for a non-singular innovation factor",
)

ALL = [sum_of_sqrtm_factors, revert_conditional]
