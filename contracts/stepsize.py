"""Contracts for the initial step-size helpers (C18)."""

import jax
import jax.numpy as jnp
import numpy as np

from vcgen import prims
from vcgen.harness import Contract, Instance, eq, ge, gt, holds

MOD = "probdiffeq._ivpsolve.stepsize_initialisers"
_F = {}


def field(d):
    if d not in _F:
        _F[d] = prims.make_uf(f"vf{d}", [(d,)], (d,), native=lambda y, t: jnp.sin(y) * (1 + t) + 0.3)
    return _F[d]


def _ode(d):
    import probdiffeq.probdiffeq as pd

    f = field(d)
    return pd.ode(lambda y, /, *, t: f(y, t))


_F2 = {}


def field_higher(d, order):
    """u^(order) = f(u, u', ..., u^(order-1), t), uninterpreted."""
    if (d, order) not in _F2:
        _F2[(d, order)] = prims.make_uf(f"vf{d}_order{order}", [(d,)] * order, (d,), native=lambda *a: sum((k + 1.0) * jnp.sin(y) for k, y in enumerate(a[:-1])) * (1 + a[-1]) + 0.3)
    return _F2[(d, order)]


def dt0_contract():
    def wrap(target):
        def f(u0, t0, scale, nugget, *higher, d):
            if not higher:
                return target(_ode(d), [u0], scale=scale, nugget=nugget, t=t0)
            import probdiffeq.probdiffeq as pd

            g = field_higher(d, 1 + len(higher))
            ode = pd.ode_order_arbitrary(lambda *ys, t: g(*ys, t), num_tcoeffs_in_args=1 + len(higher))
            return target(ode, [u0, *higher], scale=scale, nugget=nugget, t=t0)

        return f

    def ensures(res, u0, t0, scale, nugget, *higher, d):
        # the state u(t0) is the *first* coefficient, whatever the order of the ODE
        f0 = field_higher(d, 1 + len(higher))(u0, *higher, t0) if higher else field(d)(u0, t0)
        ny, nf = jnp.sqrt(jnp.sum(u0 * u0)), jnp.sqrt(jnp.sum(f0 * f0))
        return [eq("heuristic", res * (nf + nugget), scale * ny), gt("strictly_positive", res)]

    def instances(tier):
        out = []
        for d in (1, 2) + ((3,) if tier == "thorough" else ()):
            def make(rng, d=d):
                return (jnp.asarray(rng.normal(size=(d,))), jnp.asarray(rng.normal()), jnp.asarray(0.01), jnp.asarray(1e-5)), {"d": d}
            out.append(Instance(f"d={d}", make, positive=lambda a, k: [a[2], a[3]], names=lambda a, k: {id(a[0]): "u0", id(a[1]): "t0", id(a[2]): "scale", id(a[3]): "nugget"}))
        for d, order in [(2, 2), (1, 3)] + ([(3, 2), (2, 4)] if tier == "thorough" else []):
            def make(rng, d=d, order=order):
                return (jnp.asarray(rng.normal(size=(d,))), jnp.asarray(rng.normal()), jnp.asarray(0.01), jnp.asarray(1e-5), *[jnp.asarray(rng.normal(size=(d,))) for _ in range(order - 1)]), {"d": d}
            out.append(Instance(f"d={d},ode_order={order}", make, positive=lambda a, k: [a[2], a[3]], names=lambda a, k: {id(a[0]): "u0", id(a[1]): "t0", id(a[2]): "scale", id(a[3]): "nugget", **{id(x): f"du{i + 1}" for i, x in enumerate(a[4:])}}))
        return out

    return Contract(name=f"{MOD}:dt0", module=MOD, qualname="dt0", wrap=wrap, ensures=ensures, instances=instances,
                    doc="dt0 = scale |u0| / (|f0| + nugget), strictly positive for every initial value (including zero)")


def hnw_reference(f, y0, t0, rate, rtol, atol):
    """Two-stage heuristic of Hairer-Norsett-Wanner II.4 with the norm convention of the cited reference
    implementation (jax.experimental.ode.initial_step_size): d0, d1, d2 all in the tolerance-scaled 2-norm."""
    f0 = f(y0, t0)
    scale = atol + jnp.abs(y0) * rtol
    d0 = jnp.sqrt(jnp.sum((y0 / scale) ** 2))
    d1 = jnp.sqrt(jnp.sum((f0 / scale) ** 2))
    h0 = jnp.where((d0 < 1e-5) | (d1 < 1e-5), 1e-6, 0.01 * d0 / d1)
    y1 = y0 + h0 * f0
    f1 = f(y1, t0 + h0)
    d2 = jnp.sqrt(jnp.sum(((f1 - f0) / scale) ** 2)) / h0
    h1 = jnp.where((d1 <= 1e-15) & (d2 <= 1e-15), jnp.maximum(1e-6, h0 * 1e-3), (0.01 / jnp.maximum(d1, d2)) ** (1.0 / (rate + 1.0)))
    return jnp.minimum(100.0 * h0, h1)


def dt0_adaptive_contract():
    def wrap(target):
        def f(u0, t0, rtol, atol, *, d, rate):
            return target(_ode(d), [u0], t0, error_contraction_rate=rate, rtol=rtol, atol=atol)

        return f

    def ensures(res, u0, t0, rtol, atol, *, d, rate):
        ref = hnw_reference(field(d), u0, t0, rate, rtol, atol)
        return [gt("strictly_positive", res), eq("two_stage_heuristic_HNW_II.4", res, ref)]

    def instances(tier):
        out = []
        for d, rate in [(1, 1), (2, 3)] + ([(3, 5), (2, 12)] if tier == "thorough" else []):
            def make(rng, d=d, rate=rate):
                return (jnp.asarray(rng.normal(size=(d,))), jnp.asarray(rng.normal()), jnp.asarray(1e-3), jnp.asarray(1e-4)), {"d": d, "rate": rate}
            out.append(Instance(f"d={d},rate={rate}", make, positive=lambda a, k: [a[3]], nonneg=lambda a, k: [a[2]], names=lambda a, k: {id(a[0]): "u0", id(a[1]): "t0", id(a[2]): "rtol", id(a[3]): "atol"}))
        return out

    return Contract(name=f"{MOD}:dt0_adaptive", module=MOD, qualname="dt0_adaptive", wrap=wrap, ensures=ensures, instances=instances,
                    doc="positive for every input (zero values / zero derivatives included) and equal to the two-stage heuristic computed independently")


def contracts():
    return [dt0_contract(), dt0_adaptive_contract()]
