"""Contracts for the adaptive time-stepping machinery (C06, parts of C05).

The solver, the error estimator and the controller are *abstract*: stub objects whose methods are
opaque functions constrained only by the contracts below (which are discharged against the real
implementations elsewhere: controllers here, solver.step frame in C02, interpolation frames in C05).
Everything is scalar real arithmetic with case splits, so obligations are discharged by z3/cvc5
directly (assumptions |- goal), for all histories (loop invariants), layouts and parameters.
"""

from __future__ import annotations

import dataclasses

import jax
import jax.numpy as jnp
import numpy as np

from vcgen import interp, prims
from vcgen import poly as P
from vcgen.harness import Contract, Instance, eq, ge, gt, holds, hoare_while, havoc_like

MOD = "probdiffeq._ivpsolve.solvers_via_adaptive_steps"
CTRL = "probdiffeq._ivpsolve.controllers"

# --------------------------------------------------------------------------------------
# abstract solver / error / controller
# --------------------------------------------------------------------------------------

DATA = 1  # size of the opaque payload carried by abstract solver states


def _sol(t, ns, data):
    from probdiffeq._probdiffeq.solvers import ProbabilisticSolution

    return ProbabilisticSolution(t=t, u=data, solution_full=None, output_scale=None, num_steps=ns, auxiliary=None, fun_evals=None, prior=None)


f64 = jnp.float64


def _sds(shape=()):
    return jax.ShapeDtypeStruct(shape, f64)


STUBS: dict = {}


def _stub_dispatch(ctx, prm, *ops):
    name = prm["name"].split("::", 1)[1]
    return STUBS[name](ctx, *ops)


prims.BASE_HANDLERS["stub"] = _stub_dispatch
_PARAMS: dict = {}


def param(name, **flags):
    """Symbolic controller parameter (created once per verification run)."""
    key = (name, len(P.SYMS) and id(P.SYMS))
    v = _PARAMS.get(name)
    if v is None or P._sid(v) >= len(P.SYMS) or P.SYMS[P._sid(v)]["name"] != name:
        v = P.fresh(name, kind="input", **flags)
        _PARAMS[name] = v
    return v


def _scalar(v):
    o = np.empty((), dtype=object)
    o[()] = v
    return o


def _fresh_scalar(name, **flags):
    arr, sids = prims.fresh_array((), name, kind="stub", **flags)
    prims.CALL_LOG.append({"name": "stub", "operands": [], "out_sids": [sids], "native": None})
    return arr


def _fresh_vec(name, n=DATA):
    arr, sids = prims.fresh_array((n,), name, kind="stub")
    prims.CALL_LOG.append({"name": "stub", "operands": [], "out_sids": [sids], "native": None})
    return arr


def _s_step(ctx, t, ns, data, dt, damp):
    c = prims._count("stub")
    return [_scalar(t[()] + dt[()]), _scalar(ns[()] + P.ONE_V), _fresh_vec(f"stepdata{c}")]


def _s_error(ctx, es, pt, pns, pdata, qt, qns, qdata, dt, atol, rtol, damp):
    c = prims._count("stub")
    ep = _fresh_scalar(f"error_power{c}", positive=True)
    return [ep, _fresh_vec(f"errstate{c}")]


def _s_control(ctx, dt, cstate, ep):
    c = prims._count("stub")
    rho = _fresh_scalar(f"rho{c}", positive=True)
    fmin, fmax = param("factor_min", positive=True), param("factor_max", positive=True)
    r = rho[()]
    ctx.assume_bool(f"control#{c}.rho>=factor_min", P.cmp0("ge", r - fmin), origin="stub:control")
    ctx.assume_bool(f"control#{c}.rho<=factor_max", P.cmp0("le", r - fmax), origin="stub:control")
    ctx.assume_bool(f"control#{c}.rejected=>rho<1", P.b_or(P.cmp0("ge", ep[()] - 1), P.cmp0("lt", r - 1)), origin="stub:control")
    ctx.assume_bool("control.factor_min<1", P.cmp0("lt", fmin - 1), origin="stub:control")
    ctx.assume_bool("control.factor_min<=factor_max", P.cmp0("le", fmin - fmax), origin="stub:control")
    return [_scalar(r * dt[()]), _fresh_vec(f"ctrlstate{c}")]


def _s_interp(ctx, t, ft, fns, fdata, tt, tns, tdata):
    c = prims._count("stub")
    return [
        _scalar(t[()]), _scalar(tns[()]), _fresh_vec(f"interpolated{c}"),  # interpolated
        _scalar(tt[()]), _scalar(tns[()]), _fresh_vec(f"interp_step_from{c}"),  # step_from
        _scalar(t[()]), _scalar(fns[()]), _fresh_vec(f"interp_interp_from{c}"),  # interp_from
    ]


def _s_interp_t1(ctx, ft, fns, fdata, tt, tns, tdata):
    c = prims._count("stub")
    return [
        _scalar(tt[()]), _scalar(tns[()]), _fresh_vec(f"at_t1_sol{c}"),
        _scalar(tt[()]), _scalar(tns[()]), _fresh_vec(f"at_t1_step_from{c}"),
        _scalar(tt[()]), _scalar(fns[()]), _fresh_vec(f"at_t1_interp_from{c}"),
    ]


def _s_init(ctx, t, u, damp):
    c = prims._count("stub")
    return [_scalar(t[()]), _scalar(P.ZERO), _fresh_vec(f"initdata{c}")]


STUBS.update(step=_s_step, error=_s_error, control=_s_control, interp=_s_interp, interp_t1=_s_interp_t1, init=_s_init)


def _bind(name, arrays, outs):
    return prims.bind_opaque(f"stub::{name}", [jnp.asarray(a, dtype=f64) for a in arrays], outs, static=())


class AbsSolver:
    """Abstract solver: only the contract the time-stepping code may rely on."""

    is_suitable_for_save_at = True
    is_suitable_for_save_every_step = True

    def init(self, t, u, damp):
        t_, ns, data = _bind("init", [t, jnp.reshape(u, (-1,))[:1], damp], [_sds(), _sds(), _sds((DATA,))])
        return _sol(t_, ns, data)

    def step(self, state, dt, damp):
        t, ns, data = _bind("step", [state.t, state.num_steps, state.u, dt, damp], [_sds(), _sds(), _sds((DATA,))])
        return _sol(t, ns, data)

    def interpolate_fwd(self, *, t, interp_from, interp_to):
        from probdiffeq._probdiffeq.utilities import InterpResult

        o = _bind("interp", [t, interp_from.t, interp_from.num_steps, interp_from.u, interp_to.t, interp_to.num_steps, interp_to.u], [_sds(), _sds(), _sds((DATA,))] * 3)
        return _sol(*o[0:3]), InterpResult(step_from=_sol(*o[3:6]), interp_from=_sol(*o[6:9]))

    def interpolate_fwd_at_t1(self, *, t, interp_from, interp_to):
        from probdiffeq._probdiffeq.utilities import InterpResult

        del t
        o = _bind("interp_t1", [interp_from.t, interp_from.num_steps, interp_from.u, interp_to.t, interp_to.num_steps, interp_to.u], [_sds(), _sds(), _sds((DATA,))] * 3)
        return _sol(*o[0:3]), InterpResult(step_from=_sol(*o[3:6]), interp_from=_sol(*o[6:9]))

    def userfriendly_output(self, *, solution0, solution, solution1):
        return solution


class AbsError:
    def init_error(self):
        return jnp.zeros((DATA,))

    def estimate_error_norm(self, state, previous, proposed, *, dt, atol, rtol, damp):
        ep, es = _bind("error", [state, previous.t, previous.num_steps, previous.u, proposed.t, proposed.num_steps, proposed.u, dt, atol, rtol, damp], [_sds(), _sds((DATA,))])
        return ep, es


class AbsControl:
    def init(self, dt):
        return jnp.zeros((DATA,))

    def apply(self, dt, state, *, error_power):
        dtn, cs = _bind("control", [dt, state, error_power], [_sds(), _sds((DATA,))])
        return dtn, cs


def make_loop(clip, while_loop=None):
    from probdiffeq._ivpsolve.solvers_via_adaptive_steps import RejectionLoop
    from probdiffeq.backend import flow

    return RejectionLoop(solver=AbsSolver(), clip_dt=clip, error=AbsError(), control=AbsControl(), while_loop=while_loop or flow.while_loop)


def rand_sol(rng):
    return _sol(jnp.asarray(rng.uniform(0.0, 1.0)), jnp.asarray(float(rng.integers(0, 5))), jnp.asarray(rng.normal(size=(DATA,))))


def same(prefix, a, b):
    return [eq(f"{prefix}{k}", x, y) for k, (x, y) in enumerate(zip(jax.tree_util.tree_leaves(a), jax.tree_util.tree_leaves(b)))]


# --------------------------------------------------------------------------------------
# the real controllers against the Control contract
# --------------------------------------------------------------------------------------


def _ctrl_requires(dt, ep, safety, fmin, fmax, *rest):
    return [gt("dt>0", dt), gt("error_power>0", ep), gt("safety>0", safety), ge("safety<=1", 1.0 - safety),
            gt("factor_min>0", fmin), gt("factor_min<1", 1.0 - fmin), ge("factor_min<=factor_max", fmax - fmin)]


def _ctrl_post(dt_new, dt, ep, fmin, fmax):
    return [
        ge("factor>=factor_min", dt_new - fmin * dt),
        ge("factor<=factor_max", fmax * dt - dt_new),
        holds("rejected=>strictly_smaller", jnp.logical_or(ep >= 1.0, dt_new < dt)),
        gt("proposal_positive", dt_new),
    ]


def _wrap_integral(target):
    def f(dt, ep, safety, fmin, fmax):
        from probdiffeq._ivpsolve.controllers import control_integral

        c = control_integral(safety=safety, factor_min=fmin, factor_max=fmax)
        return target(c, dt, c.init(dt), error_power=ep)

    return f


def _wrap_pi(target):
    def f(dt, ep, safety, fmin, fmax, memory, e_int, e_prop):
        from probdiffeq._ivpsolve.controllers import control_proportional_integral

        c = control_proportional_integral(safety=safety, factor_min=fmin, factor_max=fmax, exponent_integral=e_int, exponent_proportional=e_prop)
        return target(c, dt, memory, error_power=ep)

    return f


def _ctrl_instances(npar):
    def inst(tier):
        def make(rng):
            vals = [rng.uniform(0.05, 0.5), rng.uniform(0.5, 2.0), rng.uniform(0.5, 1.0), rng.uniform(0.1, 0.9), rng.uniform(1.0, 10.0), rng.uniform(1.0, 3.0), rng.uniform(0.1, 1.0), rng.uniform(0.1, 1.0)]
            return tuple(jnp.asarray(v) for v in vals[:npar]), {}
        return [Instance("symbolic-parameters", make, names=lambda a, k: {id(x): n for x, n in zip(a, ["dt", "error_power", "safety", "factor_min", "factor_max", "memory", "exp_integral", "exp_proportional"])})]

    return inst


control_integral_apply = Contract(
    name=f"{CTRL}:control_integral.apply", module=CTRL, qualname="control_integral.apply", wrap=_wrap_integral,
    requires=lambda dt, ep, s, fmin, fmax: _ctrl_requires(dt, ep, s, fmin, fmax),
    ensures=lambda res, dt, ep, s, fmin, fmax: _ctrl_post(res[0], dt, ep, fmin, fmax),
    instances=_ctrl_instances(5),
    doc="Control contract: dt' = rho dt with factor_min <= rho <= factor_max and rho < 1 whenever error_power < 1",
)

control_pi_apply = Contract(
    name=f"{CTRL}:control_proportional_integral.apply", module=CTRL, qualname="control_proportional_integral.apply", wrap=_wrap_pi,
    requires=lambda dt, ep, s, fmin, fmax, mem, ei, epp: _ctrl_requires(dt, ep, s, fmin, fmax) + [ge("memory>=1", mem - 1.0), gt("exp_integral>0", ei), gt("exp_proportional>0", epp)],
    ensures=lambda res, dt, ep, s, fmin, fmax, mem, ei, epp: _ctrl_post(res[0], dt, ep, fmin, fmax) + [
        ge("memory_stays>=1", res[1] - 1.0),
        holds("memory_updated_only_on_accept", jnp.logical_or(ep >= 1.0, res[1] == mem)),
        holds("memory_is_last_accepted_error", jnp.logical_or(ep < 1.0, res[1] == ep)),
    ],
    instances=_ctrl_instances(8),
    doc="Control contract + PI memory invariant (memory >= 1, updated only on acceptance)",
)


# --------------------------------------------------------------------------------------
# RejectionLoop.step_attempt
# --------------------------------------------------------------------------------------


def _loopstate(rng):
    from probdiffeq._ivpsolve.solvers_via_adaptive_steps import _RejectionLoopState

    return _RejectionLoopState(
        dt=jnp.asarray(rng.uniform(0.05, 0.5)), acceptance_factor_proposed=jnp.asarray(rng.uniform(0.1, 2.0)),
        control=jnp.asarray(rng.normal(size=(DATA,))), proposed=rand_sol(rng), step_from=rand_sol(rng),
        error_step_from=jnp.asarray(rng.normal(size=(DATA,))), error_proposed=jnp.asarray(rng.normal(size=(DATA,))),
    )


def _timestepstate(rng):
    from probdiffeq._ivpsolve.solvers_via_adaptive_steps import TimeStepState

    return TimeStepState(dt=jnp.asarray(rng.uniform(0.05, 0.5)), step_from=rand_sol(rng), interp_from=rand_sol(rng), control=jnp.asarray(rng.normal(size=(DATA,))), error_step_from=jnp.asarray(rng.normal(size=(DATA,))))


def dt_used(clip, dt, t1, t):
    return jnp.minimum(dt, t1 - t) if clip else dt


def attempt_spec(loop, clip, state, t1, atol, rtol, damp):
    """The documented meaning of one attempt, expressed through the abstract solver/error/control."""
    du = dt_used(clip, state.dt, t1, state.step_from.t)
    proposed = loop.solver.step(state=state.step_from, dt=du, damp=damp)
    ep, es = loop.error.estimate_error_norm(state.error_step_from, previous=state.step_from, proposed=proposed, dt=du, atol=atol, rtol=rtol, damp=damp)
    dtn, cs = loop.control.apply(du, state.control, error_power=ep)
    return du, proposed, ep, es, dtn, cs


def step_attempt_contract(clip):
    def wrap(target):
        def f(state, t1, atol, rtol, damp):
            return target(make_loop(clip), state, t1=t1, atol=atol, rtol=rtol, damp=damp)

        return f

    def requires(state, t1, atol, rtol, damp):
        cl = [gt("dt>0", state.dt)]
        if clip:
            cl.append(gt("before_t1", t1 - state.step_from.t))
        return cl

    def ensures(res, state, t1, atol, rtol, damp):
        loop = make_loop(clip)
        du, proposed, ep, es, dtn, cs = attempt_spec(loop, clip, state, t1, atol, rtol, damp)
        fmin, fmax = jnp.asarray(1.0), jnp.asarray(1.0)
        cl = same("rejected_attempts_leave_step_from_untouched", res.step_from, state.step_from)
        cl += same("error_state_untouched", res.error_step_from, state.error_step_from)
        cl += same("proposed_is_step_from_entry_state", res.proposed, proposed)
        cl += [eq("acceptance_is_error_of_this_attempt", res.acceptance_factor_proposed, ep)]
        cl += same("error_state_of_this_attempt", res.error_proposed, es)
        cl += [eq("proposal_from_controller", res.dt, dtn)] + same("controller_state", res.control, cs)
        cl += [gt("attempted_step_positive", du), gt("next_proposal_positive", res.dt)]
        cl += [eq("time_advances_by_attempted_step", res.proposed.t, state.step_from.t + du)]
        cl += [holds("rejected=>next_attempt_strictly_smaller", jnp.logical_or(ep >= 1.0, res.dt < du))]
        cl += [ge("attempt_no_larger_than_proposal", state.dt - du)]
        if clip:
            cl.append(ge("clipped_step_ends_before_checkpoint", t1 - (state.step_from.t + du)))
        return cl

    def instances(tier):
        def make(rng):
            st = _loopstate(rng)
            return (st, jnp.asarray(rng.uniform(1.5, 2.0)), jnp.asarray(1e-3), jnp.asarray(1e-3), jnp.asarray(0.0)), {}
        return [Instance(f"clip={clip}", make, names=lambda a, k: {id(a[0].dt): "dt", id(a[0].step_from.t): "t", id(a[1]): "t1", id(a[0].acceptance_factor_proposed): "acc"})]

    return Contract(
        name=f"{MOD}:RejectionLoop.step_attempt[clip={clip}]", module=MOD, qualname="RejectionLoop.step_attempt", wrap=wrap,
        requires=requires, ensures=ensures, instances=instances,
        doc="one attempt: steps from step_from (never from a rejected proposal), error of the same attempt, controller proposal, clipping",
    )


# --------------------------------------------------------------------------------------
# RejectionLoop.step  (the rejection loop; Hoare rule)
# --------------------------------------------------------------------------------------


def _all(conds):
    out = conds[0]
    for c in conds[1:]:
        out = jnp.logical_and(out, c)
    return out


def _tree_equal(a, b):
    return _all([jnp.all(x == y) for x, y in zip(jax.tree_util.tree_leaves(a), jax.tree_util.tree_leaves(b))])


def accepted_step_facts(loop, clip, step_from, err_from, proposed_state, acceptance, err_proposed, dt_next, t1, atol, rtol, damp):
    """'proposed_state is the result of one attempt from step_from' as a list of boolean conditions."""
    du = proposed_state.t - step_from.t
    proposed = loop.solver.step(state=step_from, dt=du, damp=damp)
    ep, es = loop.error.estimate_error_norm(err_from, previous=step_from, proposed=proposed, dt=du, atol=atol, rtol=rtol, damp=damp)
    rel = [
        _tree_equal(proposed_state, proposed),
        acceptance == ep,
        jnp.all(err_proposed == es),
        du > 0.0,
        dt_next >= param_arr("factor_min") * du,
        dt_next <= param_arr("factor_max") * du,
    ]
    if clip:
        rel.append(step_from.t + du <= t1)
    return rel


def rejection_rule(loop, clip, t1, atol, rtol, damp):
    def keep(init, s):
        """modifies-clause: step_from / error_step_from are never written by the loop."""
        return dataclasses.replace(s, step_from=init.step_from, error_step_from=init.error_step_from)

    def inv(init, s, g):
        attempted = g["attempted"]
        untouched = _all([s.dt == init.dt, s.acceptance_factor_proposed == init.acceptance_factor_proposed, jnp.all(s.control == init.control)])
        rel = _all(accepted_step_facts(loop, clip, init.step_from, init.error_step_from, s.proposed, s.acceptance_factor_proposed, s.error_proposed, s.dt, t1, atol, rtol, damp))
        return [
            gt("dt>0", s.dt),
            holds("before_first_attempt_state_is_initial", jnp.logical_or(attempted, untouched)),
            holds("after_an_attempt_state_describes_it", jnp.logical_or(jnp.logical_not(attempted), rel)),
        ]

    return hoare_while(
        inv, name="rejection_loop", keep=keep,
        ghost_init=lambda init: {"attempted": jnp.asarray(False)},
        ghost_step=lambda init, s, g, s1: {"attempted": jnp.asarray(True)},
    )


def step_contract(clip):
    def wrap(target):
        def f(s, t1, atol, rtol, damp):
            loop = make_loop(clip)
            loop.while_loop = rejection_rule(loop, clip, t1, atol, rtol, damp)
            return target(loop, (s, t1, atol, rtol, damp))

        return f

    def requires(s, t1, atol, rtol, damp):
        cl = [gt("dt>0", s.dt)]
        if clip:
            cl.append(gt("before_t1", t1 - s.step_from.t))
        return cl

    def ensures(res, s, t1, atol, rtol, damp):
        loop = make_loop(clip)
        du = res.step_from.t - s.step_from.t
        proposed = loop.solver.step(state=s.step_from, dt=du, damp=damp)
        ep, es = loop.error.estimate_error_norm(s.error_step_from, previous=s.step_from, proposed=proposed, dt=du, atol=atol, rtol=rtol, damp=damp)
        cl = same("interp_from_is_entry_state", res.interp_from, s.step_from)
        cl += same("step_from_is_one_step_from_entry_state", res.step_from, proposed)
        cl += [ge("time_advances_only_through_an_accepted_attempt", ep - 1.0)]
        cl += same("error_state_of_accepted_attempt", res.error_step_from, es)
        cl += [gt("accepted_step_positive", du), gt("next_proposal_positive", res.dt)]
        cl += [ge("factor>=factor_min", res.dt - param_arr("factor_min") * du), ge("factor<=factor_max", param_arr("factor_max") * du - res.dt)]
        cl += [eq("step_count_incremented_once", res.step_from.num_steps, s.step_from.num_steps + 1.0)]
        if clip:
            cl.append(ge("no_step_ends_beyond_checkpoint", t1 - res.step_from.t))
        return cl

    def instances(tier):
        def make(rng):
            st = _timestepstate(rng)
            return (st, jnp.asarray(rng.uniform(1.5, 2.0)), jnp.asarray(1e-3), jnp.asarray(1e-3), jnp.asarray(0.0)), {}
        return [Instance(f"clip={clip}", make, names=lambda a, k: {id(a[0].dt): "dt", id(a[0].step_from.t): "t", id(a[1]): "t1"})]

    return Contract(
        name=f"{MOD}:RejectionLoop.step[clip={clip}]", module=MOD, qualname="RejectionLoop.step", wrap=wrap,
        requires=requires, ensures=ensures, instances=instances, callees=[],
        doc="rejection loop (loop rule, all accept/reject histories): exits only with an accepted attempt made from the entry state",
    )


def param_arr(name):
    """Controller parameter as a traced value (opaque nullary function)."""
    (o,) = prims.bind_opaque(f"stub::param_{name}", [], [_sds()], static=())
    return o


STUBS["param_factor_min"] = lambda ctx: [_scalar(param("factor_min", positive=True))]
STUBS["param_factor_max"] = lambda ctx: [_scalar(param("factor_max", positive=True))]


# --------------------------------------------------------------------------------------
# RejectionLoop.step as a callee (same postcondition, read off the loop object)
# --------------------------------------------------------------------------------------


def _step_post(loop, clip, res, s, t1, atol, rtol, damp):
    du = res.step_from.t - s.step_from.t
    proposed = loop.solver.step(state=s.step_from, dt=du, damp=damp)
    ep, es = loop.error.estimate_error_norm(s.error_step_from, previous=s.step_from, proposed=proposed, dt=du, atol=atol, rtol=rtol, damp=damp)
    cl = same("interp_from_is_entry_state", res.interp_from, s.step_from)
    cl += same("step_from_is_one_step_from_entry_state", res.step_from, proposed)
    cl += [ge("time_advances_only_through_an_accepted_attempt", ep - 1.0)]
    cl += same("error_state_of_accepted_attempt", res.error_step_from, es)
    cl += [gt("accepted_step_positive", du), gt("next_proposal_positive", res.dt)]
    cl += [ge("factor>=factor_min", res.dt - param_arr("factor_min") * du), ge("factor<=factor_max", param_arr("factor_max") * du - res.dt)]
    cl += [eq("step_count_incremented_once", res.step_from.num_steps, s.step_from.num_steps + 1.0)]
    if clip:
        cl.append(ge("no_step_ends_beyond_checkpoint", t1 - res.step_from.t))
    return cl


def _step_requires(clip, s, t1):
    cl = [gt("dt>0", s.dt)]
    if clip:
        cl.append(gt("before_t1", t1 - s.step_from.t))
    return cl


step_as_callee = Contract(
    name=f"{MOD}:RejectionLoop.step", module=MOD, qualname="RejectionLoop.step",
    requires=lambda self, tup: _step_requires(self.clip_dt, tup[0], tup[1]),
    ensures=lambda res, self, tup: _step_post(self, self.clip_dt, res, *tup),
    doc="callee form of the rejection-loop contract",
)


# --------------------------------------------------------------------------------------
# RejectionLoop.loop : one call = (maybe) one accepted step, then skip / interpolate / land
# --------------------------------------------------------------------------------------


def _loop_requires(state0, t1, eps):
    return [
        gt("dt>0", state0.dt), ge("eps>=0", eps),
        ge("interp_from_not_after_step_from", state0.step_from.t - state0.interp_from.t),
        holds("if_already_beyond_then_interp_from_before_checkpoint", jnp.logical_or(state0.step_from.t <= t1 + eps, state0.interp_from.t <= t1)),
    ]


def _loop_state_facts(solution, st, t1, eps):
    """Facts about (reported solution, new state) that only mention the result and the checkpoint."""
    before = st.step_from.t + eps < t1
    after = st.step_from.t > t1 + eps
    return [
        st.dt > 0.0,
        st.interp_from.t <= st.step_from.t,
        solution.t <= st.step_from.t,
        solution.num_steps == st.step_from.num_steps,
        # not yet at the checkpoint: nothing is interpolated, the step end itself is handed back
        jnp.logical_or(jnp.logical_not(before), _tree_equal(solution, st.step_from)),
        # stepped beyond: report exactly at t1, continue interpolating from t1
        jnp.logical_or(jnp.logical_not(after), _all([solution.t == t1, st.interp_from.t == t1])),
        # landed within eps: report the step end itself, which is within eps of t1
        jnp.logical_or(jnp.logical_or(before, after), _all([solution.t == st.step_from.t, st.interp_from.t == st.step_from.t, solution.t <= t1 + eps, solution.t >= t1 - eps])),
    ]


def _loop_post(clip, res, state0, t1, eps):
    solution, st = res
    t0 = state0.step_from.t
    stepped = t0 + eps < t1
    lo = jnp.where(stepped, t0, state0.interp_from.t)
    after = st.step_from.t > t1 + eps
    names = ["dt>0", "interp_from<=step_from", "reported_time<=step_from", "reported_step_count_is_current", "skip_returns_step_end", "beyond_reports_exactly_at_checkpoint", "landed_reports_within_eps"]
    cl = [holds(n, c) for n, c in zip(names, _loop_state_facts(solution, st, t1, eps))]
    cl += [
        holds("no_attempt_no_time_advance", jnp.logical_or(stepped, _all([st.step_from.t == t0, st.step_from.num_steps == state0.step_from.num_steps]))),
        holds("one_accepted_attempt_advances_time", jnp.logical_or(jnp.logical_not(stepped), _all([st.step_from.t > t0, st.step_from.num_steps == state0.step_from.num_steps + 1.0]))),
        holds("interpolation_between_its_two_states", jnp.logical_or(jnp.logical_not(after), _all([lo <= t1, t1 <= st.step_from.t]))),
        holds("without_attempt_controller_and_proposal_untouched", jnp.logical_or(stepped, _all([st.dt == state0.dt, jnp.all(st.control == state0.control), jnp.all(st.error_step_from == state0.error_step_from)]))),
    ]
    if clip:
        cl.append(holds("clipped_step_not_beyond_checkpoint", jnp.logical_or(jnp.logical_not(stepped), st.step_from.t <= t1)))
    return cl


def loop_contract(clip):
    def wrap(target):
        def f(state0, t1, atol, rtol, eps, damp):
            return target(make_loop(clip), state0, t1=t1, atol=atol, rtol=rtol, eps=eps, damp=damp)

        return f

    def instances(tier):
        def make(rng):
            st = _timestepstate(rng)
            return (st, jnp.asarray(rng.uniform(1.5, 2.0)), jnp.asarray(1e-3), jnp.asarray(1e-3), jnp.asarray(1e-8), jnp.asarray(0.0)), {}
        return [Instance(f"clip={clip}", make, names=lambda a, k: {id(a[0].dt): "dt", id(a[0].step_from.t): "t_step", id(a[0].interp_from.t): "t_interp", id(a[1]): "t1", id(a[4]): "eps"})]

    return Contract(
        name=f"{MOD}:RejectionLoop.loop[clip={clip}]", module=MOD, qualname="RejectionLoop.loop", wrap=wrap,
        requires=lambda state0, t1, atol, rtol, eps, damp: _loop_requires(state0, t1, eps),
        ensures=lambda res, state0, t1, atol, rtol, eps, damp: _loop_post(clip, res, state0, t1, eps),
        instances=instances, callees=[step_as_callee],
        doc="branch selection by eps, reporting time, interpolation bracket, step counting",
    )


loop_as_callee = Contract(
    name=f"{MOD}:RejectionLoop.loop", module=MOD, qualname="RejectionLoop.loop",
    requires=lambda self, state0, *, t1, atol, rtol, eps, damp: _loop_requires(state0, t1, eps),
    ensures=lambda res, self, state0, *, t1, atol, rtol, eps, damp: _loop_post(self.clip_dt, res, state0, t1, eps),
    doc="callee form of the loop contract",
)


# --------------------------------------------------------------------------------------
# solve_adaptive_save_at: checkpoint loop (while) inside the scan over checkpoints
# --------------------------------------------------------------------------------------

CURRENT: dict = {}


def solve_contract(clip):
    from vcgen.harness import hoare_scan

    def wrap(target):
        def f(u, save_at, atol, rtol, dt0, eps, damp):
            import probdiffeq._ivpsolve.solvers_via_adaptive_steps as M

            def adv_inv(init, c, g):
                t_next = CURRENT["t_next"]
                entered = g["entered"]
                untouched = _tree_equal(c, init)
                facts = _all(_loop_state_facts(c.solution, c.loopstate, t_next, eps) + [
                    c.do_continue == (c.loopstate.step_from.t + eps < t_next),
                    c.loopstate.step_from.num_steps == g["accepted"],
                    jnp.logical_or(c.loopstate.step_from.t <= t_next + eps, c.loopstate.interp_from.t <= t_next),
                ])
                return [
                    holds("before_first_pass_state_is_initial", jnp.logical_or(entered, _all([untouched, g["accepted"] == init.loopstate.step_from.num_steps]))),
                    holds("after_a_pass_state_is_consistent", jnp.logical_or(jnp.logical_not(entered), facts)),
                    gt("dt>0", c.loopstate.dt),
                    ge("interp_from<=step_from", c.loopstate.step_from.t - c.loopstate.interp_from.t),
                    holds("interp_bracket", jnp.logical_or(c.loopstate.step_from.t <= t_next + eps, c.loopstate.interp_from.t <= t_next)),
                ]

            def adv_ghost_step(init, s, g, s1):
                t_next = CURRENT["t_next"]
                stepped = s.loopstate.step_from.t + eps < t_next
                return {"entered": jnp.asarray(True), "accepted": g["accepted"] + jnp.where(stepped, 1.0, 0.0)}

            def expose(init, s2, g2):
                CURRENT["adv_exit_ghost"] = g2

            adv_rule = hoare_while(
                adv_inv, name="checkpoint_loop",
                ghost_init=lambda init: {"entered": jnp.asarray(False), "accepted": init.loopstate.step_from.num_steps},
                ghost_step=adv_ghost_step, expose=expose,
            )

            def scan_inv(init, carry, g):
                sol, st = carry
                t_prev = g["t_prev"]
                return [
                    gt("dt>0", st.dt),
                    ge("interp_from<=step_from", st.step_from.t - st.interp_from.t),
                    holds("interp_from_behind_last_checkpoint_or_landed", jnp.logical_or(st.interp_from.t <= t_prev, _all([st.interp_from.t == st.step_from.t, st.step_from.t <= t_prev + eps]))),
                ]

            def x_hyp(g, x):
                return [ge("checkpoints_increasing", x - g["t_prev"])]

            def on_step(c, g, x):
                CURRENT["t_next"] = x

            def step_post(c, g, x, c1, y):
                sol, st = c1
                return [
                    holds("reported_exactly_once_at_the_requested_time_up_to_eps", _all([y.t <= x + eps, y.t >= x - eps])),
                    holds("reported_step_count_equals_accepted_attempts", y.num_steps == CURRENT["adv_exit_ghost"]["accepted"]),
                    holds("carry_continues_from_the_reported_state", _all([st.step_from.t >= y.t, _tree_equal(y, sol)])),
                ]

            scan_rule = hoare_scan(
                scan_inv, name="checkpoints",
                ghost_init=lambda init, xs: {"t_prev": save_at[0]},
                ghost_step=lambda g, x: {"t_prev": x},
                x_hyp=x_hyp, step_post=step_post, on_step=on_step,
            )
            old_scan = M.flow.scan
            M.flow.scan = scan_rule
            try:
                def while_loop(cond_fun, body_fun, init):
                    # the same parameter also reaches RejectionLoop (under contract here; only traced abstractly for shapes)
                    if hasattr(init, "loopstate"):
                        return adv_rule(cond_fun, body_fun, init)
                    return jax.lax.while_loop(cond_fun, body_fun, init)

                solve = target(solver=AbsSolver(), error=AbsError(), control=AbsControl(), clip_dt=clip, while_loop=while_loop, warn=False)
                return solve(u, save_at, atol, rtol, dt0=dt0, eps=eps, damp=damp)
            finally:
                M.flow.scan = old_scan

        return f

    def requires(u, save_at, atol, rtol, dt0, eps, damp):
        return [gt("dt0>0", dt0), ge("eps>=0", eps), ge("save_at_increasing", save_at[1:] - save_at[:-1])]

    def ensures(res, u, save_at, atol, rtol, dt0, eps, damp):
        return [holds("one_report_per_checkpoint_in_order", jnp.asarray(res.t.shape[0] == save_at.shape[0] - 1))]

    def instances(tier):
        def make(rng):
            return (jnp.asarray(rng.normal(size=(1,))), jnp.asarray(np.cumsum(rng.uniform(0.1, 1.0, size=(3,)))), jnp.asarray(1e-3), jnp.asarray(1e-3), jnp.asarray(rng.uniform(0.05, 0.5)), jnp.asarray(1e-8), jnp.asarray(0.0)), {}
        return [Instance(f"clip={clip}", make, names=lambda a, k: {id(a[1]): "save_at", id(a[4]): "dt0", id(a[5]): "eps"})]

    return Contract(
        name=f"{MOD}:solve_adaptive_save_at[clip={clip}]", module=MOD, qualname="solve_adaptive_save_at", wrap=wrap,
        requires=requires, ensures=ensures, instances=instances, callees=[loop_as_callee],
        doc="checkpoint loop + scan over checkpoints (loop rules): every requested time is reported once, in order, within eps; counts = accepted attempts",
    )


# --------------------------------------------------------------------------------------
# solve_adaptive_terminal_values == last entry of solve_adaptive_save_at on [t0, t1]   (C05)
# --------------------------------------------------------------------------------------

REC: dict = {}


def terminal_values_contract():
    def wrap(target):
        def f(u, t0, t1, atol, rtol, dt0, eps, damp, template_t, template_u):
            import probdiffeq._ivpsolve.solvers_via_adaptive_steps as M

            old = M.solve_adaptive_save_at
            REC.clear()

            def fake_save_at(**kw):
                REC["ctor"] = kw

                def solve(u_, save_at, atol, rtol, dt0=None, eps=None, damp=None):
                    # an option that is not forwarded would silently fall back to the callee's default: recorded as -1
                    dt0, eps, damp = (jnp.asarray(-1.0) if v is None else v for v in (dt0, eps, damp))
                    REC["call"] = dict(u=u_, save_at=save_at, atol=atol, rtol=rtol, dt0=dt0, eps=eps, damp=damp)
                    return _sol(template_t, template_t * 0 + 3.0, template_u)  # an arbitrary stacked solution

                return solve

            M.solve_adaptive_save_at = fake_save_at
            try:
                solver, error, control = AbsSolver(), AbsError(), AbsControl()
                solve = target(solver, error, control=control, clip_dt=True, while_loop="WL")
                out = solve(u, t0=t0, t1=t1, atol=atol, rtol=rtol, dt0=dt0, eps=eps, damp=damp)
            finally:
                M.solve_adaptive_save_at = old
            c, k = REC["ctor"], REC["call"]
            passed = jnp.asarray(c["solver"] is solver and c["error"] is error and c["control"] is control and c["clip_dt"] is True and c["while_loop"] == "WL" and c["warn"] is False)
            return out.t, out.u, out.num_steps, k["save_at"], k["u"], jnp.stack([k["atol"], k["rtol"], k["dt0"], k["eps"], k["damp"]]), passed

        return f

    def ensures(res, u, t0, t1, atol, rtol, dt0, eps, damp, template_t, template_u):
        t_out, u_out, ns_out, save_at, u_in, tols, passed = res
        return [
            eq("checkpoints_are_[t0,t1]", save_at, jnp.stack([t0, t1])),
            eq("initial_value_passed_on", u_in, u),
            eq("tolerances_and_options_passed_on", tols, jnp.stack([atol, rtol, dt0, eps, damp])),
            holds("solver_error_control_clip_while_passed_on_and_warning_disabled", passed),
            eq("time_is_last_entry", t_out, template_t[-1]),
            eq("value_is_last_entry", u_out, template_u[-1]),
            eq("step_count_is_last_entry", ns_out, 3.0),
        ]

    def instances(tier):
        def make(rng):
            sc = lambda lo=0.1, hi=1.0: jnp.asarray(rng.uniform(lo, hi))
            return (jnp.asarray(rng.normal(size=(1,))), sc(), sc(1.5, 2.0), sc(), sc(), sc(), sc(), sc(), jnp.asarray(rng.normal(size=(2,))), jnp.asarray(rng.normal(size=(2, 1)))), {}
        return [Instance("abstract", make)]

    return Contract(name=f"{MOD}:solve_adaptive_terminal_values", module=MOD, qualname="solve_adaptive_terminal_values", wrap=wrap, ensures=ensures, instances=instances,
                    doc="the terminal-value routine is the last entry of the checkpointed routine on save_at = [t0, t1] with every argument passed through and the suitability warning disabled")


# --------------------------------------------------------------------------------------
# solve_fixed_grid == fold of solver.step over the grid (abstract solver; per grid length)
# --------------------------------------------------------------------------------------


def fixed_grid_fold_contract():
    """``solve_fixed_grid``: init at grid[0], then exactly one ``solver.step`` per grid interval with dt = the grid
    increment and the caller's damping, every new state emitted, and ``userfriendly_output`` called with the initial
    state, the stacked states and the state handed over by ``interpolate_fwd_at_t1(t=grid[-1], final, final)``.
    Abstract solver (the C02 / C03 contracts say what the real steps compute); per grid length."""
    MODF = "probdiffeq._ivpsolve.solvers_via_fixed_steps"
    SEEN = {}

    class Recording(AbsSolver):
        def userfriendly_output(self, *, solution0, solution, solution1):
            SEEN.update(solution0=solution0, solution=solution, solution1=solution1)
            return solution

    def wrap(target):
        def f(u, grid, damp):
            sol = target(solver=Recording())(u, grid=grid, damp=damp)
            s0, s1 = SEEN["solution0"], SEEN["solution1"]
            return sol.t, sol.num_steps, sol.u, s0.t, s0.num_steps, s0.u, s1.t, s1.num_steps, s1.u

        return f

    def ensures(res, u, grid, damp):
        ts, ns, data, t0, n0, d0, t1, n1, d1 = res
        solver = AbsSolver()
        st = solver.init(grid[0], u, damp)  # memoised stub calls: the same symbols the code obtained
        cl = [eq("initial_state_time", t0, grid[0]), eq("initial_state_is_solver_init", d0, st.u), eq("initial_state_step_count", n0, 0.0)]
        N = grid.shape[0] - 1
        cl.append(holds("one_state_per_grid_interval", jnp.asarray(ts.shape[0] == N)))
        for k in range(N):
            st = solver.step(st, grid[k + 1] - grid[k], damp)
            cl += [eq(f"time_{k + 1}_is_grid_point", ts[k], grid[k + 1]), eq(f"state_{k + 1}_is_one_step_from_state_{k}", data[k], st.u), eq(f"step_count_{k + 1}", ns[k], float(k + 1))]
        _, handed = solver.interpolate_fwd_at_t1(t=grid[-1], interp_from=st, interp_to=st)
        cl += [eq("handed_over_state_time", t1, grid[-1]), eq("handed_over_state_is_at_t1_handover_of_the_final_state", d1, handed.step_from.u), eq("handed_over_step_count", n1, float(N))]
        return cl

    def instances(tier):
        out = []
        for N in (1, 3) + ((2, 6) if tier == "thorough" else ()):
            def make(rng, N=N):
                return (jnp.asarray(rng.normal(size=(1,))), jnp.asarray(np.cumsum(rng.uniform(0.1, 0.4, size=(N + 1,)))), jnp.asarray(rng.uniform(0.0, 0.2))), {}
            out.append(Instance(f"intervals={N}", make, names=lambda a, k: {id(a[1]): "grid", id(a[2]): "damp"}))
        return out

    return Contract(name=f"{MODF}:solve_fixed_grid[fold]", module=MODF, qualname="solve_fixed_grid", wrap=wrap, ensures=ensures, instances=instances,
                    doc="fixed-grid solve == init, then one solver.step per grid interval (dt = increment, caller's damp), all states emitted, at-t1 hand-over of the final state")
