"""Contracts for the Gaussian conditional algebra of the three factorisations (C08).

Abstract views ("ghost vocabulary"), written from the textbook dense formulas:

    cov(rv)   := chol chol^T                      (one n x n matrix shared by all d dimensions for the
                                                   isotropic model; one per dimension for block-diag)
    law(cond) := (A_eff, b_eff, Q_eff) with  A_eff = D_o A D_l,  b_eff = D_o b,  Q_eff = D_o Q Q^T D_o
                 where D_l = diag(to_latent), D_o = diag(to_observed)

All postconditions are inverse-free (G S = P A^T rather than G = P A^T S^{-1}).
"""

import jax
import jax.numpy as jnp
import numpy as np

from vcgen.harness import Contract, Instance, define, eq, ge, holds

from . import cholesky_util as CU

# --------------------------------------------------------------------------------------
# layout adapters
# --------------------------------------------------------------------------------------


class DenseL:
    tag = "dense"
    module = "probdiffeq._probdiffeq.ssm_impl_dense"
    cond = "DenseLatentCond"
    normal = "DenseNormal"

    @staticmethod
    def T(M):
        return jnp.swapaxes(M, -1, -2)

    @staticmethod
    def Aeff(c):
        return c.to_observed[:, None] * c.A * c.to_latent[None, :]

    @staticmethod
    def beff(c):
        return c.to_observed * c.noise.mean_flat

    @staticmethod
    def scale_cov(D, Q):
        return D[:, None] * Q * D[None, :]

    @staticmethod
    def mv(A, m):
        return A @ m

    @staticmethod
    def mm(A, B):
        return A @ B

    # construction of concrete objects --------------------------------------------------
    @staticmethod
    def tf(n, d):
        from probdiffeq._probdiffeq import ssm_impl_dense as M

        return M.DenseTreeFlatten.from_example([jnp.zeros((d,))] * n)

    @classmethod
    def normal_obj(cls, rng, n, d, chol=None):
        from probdiffeq._probdiffeq import ssm_impl_dense as M

        N = n * d
        ch = jnp.asarray(rng.normal(size=(N, N))) if chol is None else chol
        return M.DenseNormal(jnp.asarray(rng.normal(size=(N,))), ch, cls.tf(n, d))

    @classmethod
    def cond_obj(cls, rng, n_out, n_in, d, unit=False):
        from probdiffeq._probdiffeq import ssm_impl_dense as M

        K, N = n_out * d, n_in * d
        noise = cls.normal_obj(rng, n_out, d)
        tl = jnp.ones((N,)) if unit else jnp.asarray(rng.uniform(0.5, 2.0, size=(N,)))
        to = jnp.ones((K,)) if unit else jnp.asarray(rng.uniform(0.5, 2.0, size=(K,)))
        return M.DenseLatentCond(jnp.asarray(rng.normal(size=(K, N))), noise, to_latent=tl, to_observed=to)

    @staticmethod
    def point(rng, n, d):
        return jnp.asarray(rng.normal(size=(n * d,)))


class IsoL(DenseL):
    tag = "isotropic"
    module = "probdiffeq._probdiffeq.ssm_impl_isotropic"
    cond = "IsotropicLatentCond"
    normal = "IsotropicNormal"

    @staticmethod
    def beff(c):
        return c.to_observed[:, None] * c.noise.mean_flat

    @staticmethod
    def tf(n, d):
        from probdiffeq._probdiffeq import ssm_impl_isotropic as M

        return M.IsotropicTreeFlatten.from_example([jnp.zeros((d,))] * n)

    @classmethod
    def normal_obj(cls, rng, n, d, chol=None):
        from probdiffeq._probdiffeq import ssm_impl_isotropic as M

        ch = jnp.asarray(rng.normal(size=(n, n))) if chol is None else chol
        return M.IsotropicNormal(jnp.asarray(rng.normal(size=(n, d))), ch, cls.tf(n, d))

    @classmethod
    def cond_obj(cls, rng, n_out, n_in, d, unit=False):
        from probdiffeq._probdiffeq import ssm_impl_isotropic as M

        noise = cls.normal_obj(rng, n_out, d)
        tl = jnp.ones((n_in,)) if unit else jnp.asarray(rng.uniform(0.5, 2.0, size=(n_in,)))
        to = jnp.ones((n_out,)) if unit else jnp.asarray(rng.uniform(0.5, 2.0, size=(n_out,)))
        return M.IsotropicLatentCond(jnp.asarray(rng.normal(size=(n_out, n_in))), noise, to_latent=tl, to_observed=to)

    @staticmethod
    def point(rng, n, d):
        return jnp.asarray(rng.normal(size=(n, d)))


class BlockL(DenseL):
    tag = "blockdiag"
    module = "probdiffeq._probdiffeq.ssm_impl_blockdiag"
    cond = "BlockDiagLatentCond"
    normal = "BlockDiagNormal"

    @staticmethod
    def Aeff(c):
        return c.to_observed[:, :, None] * c.A * c.to_latent[:, None, :]

    @staticmethod
    def beff(c):
        return c.to_observed * c.noise.mean_flat

    @staticmethod
    def scale_cov(D, Q):
        return D[:, :, None] * Q * D[:, None, :]

    @staticmethod
    def mv(A, m):
        return jnp.einsum("dkn,dn->dk", A, m)

    @staticmethod
    def tf(n, d):
        from probdiffeq._probdiffeq import ssm_impl_blockdiag as M

        return M.BlockDiagTreeFlatten.from_example([jnp.zeros((d,))] * n)

    @classmethod
    def normal_obj(cls, rng, n, d, chol=None):
        from probdiffeq._probdiffeq import ssm_impl_blockdiag as M

        ch = jnp.asarray(rng.normal(size=(d, n, n))) if chol is None else chol
        return M.BlockDiagNormal(jnp.asarray(rng.normal(size=(d, n))), ch, cls.tf(n, d))

    @classmethod
    def cond_obj(cls, rng, n_out, n_in, d, unit=False):
        from probdiffeq._probdiffeq import ssm_impl_blockdiag as M

        noise = cls.normal_obj(rng, n_out, d)
        tl = jnp.ones((d, n_in)) if unit else jnp.asarray(rng.uniform(0.5, 2.0, size=(d, n_in)))
        to = jnp.ones((d, n_out)) if unit else jnp.asarray(rng.uniform(0.5, 2.0, size=(d, n_out)))
        return M.BlockDiagLatentCond(jnp.asarray(rng.normal(size=(d, n_out, n_in))), noise, to_latent=tl, to_observed=to)

    @staticmethod
    def point(rng, n, d):
        return jnp.asarray(rng.normal(size=(d, n)))


LAYOUTS = [DenseL, IsoL, BlockL]


def cov(L, rv):
    return L.mm(rv.cholesky_flat, L.T(rv.cholesky_flat))


def Qeff(L, c):
    return L.scale_cov(c.to_observed, cov(L, c.noise))


def law(L, c):
    return L.Aeff(c), L.beff(c), Qeff(L, c)


def _scalings(*conds):
    def f(args, kwargs):
        out = []
        for l in jax.tree_util.tree_leaves((args, kwargs), is_leaf=lambda x: hasattr(x, "to_latent")):
            if hasattr(l, "to_latent"):
                out += [l.to_latent, l.to_observed]
        return out

    return f


def _names(args, kwargs):
    names = {}

    def visit(prefix, obj):
        if hasattr(obj, "to_latent"):
            names[id(obj.A)] = prefix + "A"
            names[id(obj.to_latent)] = prefix + "Dl"
            names[id(obj.to_observed)] = prefix + "Do"
            names[id(obj.noise.mean_flat)] = prefix + "b"
            names[id(obj.noise.cholesky_flat)] = prefix + "Q"
        elif hasattr(obj, "cholesky_flat"):
            names[id(obj.mean_flat)] = prefix + "m"
            names[id(obj.cholesky_flat)] = prefix + "L"

    for i, a in enumerate(args):
        visit(f"a{i}.", a)
    for k, a in kwargs.items():
        visit(f"{k}.", a)
    return names


def pos_requires(*conds):
    from vcgen.harness import gt

    cl = []
    for k, c in enumerate(conds):
        cl += [gt(f"to_latent_positive{k}", c.to_latent), gt(f"to_observed_positive{k}", c.to_observed)]
    return cl


def scaling_shape_clauses(cond):
    """The scalings of a conditional have one entry per latent coefficient / observed row (and per dimension for the
    block-diagonal model): shapes follow from the linear map (a swapped pair of all-ones scalings differs only here)."""
    A = cond.A
    lead = tuple(A.shape[:-2])
    return [holds("to_latent_has_one_entry_per_latent_coefficient", jnp.asarray(tuple(jnp.shape(cond.to_latent)) == lead + (A.shape[-1],))),
            holds("to_observed_has_one_entry_per_observed_row", jnp.asarray(tuple(jnp.shape(cond.to_observed)) == lead + (A.shape[-2],)))]


def _shape_family(tier, L):
    """(n_in, n_out, d): number of latent coefficients, observed rows per dimension, dimensions."""
    if L is DenseL:
        fam = [(2, 1, 1), (2, 2, 1), (1, 1, 2), (3, 1, 2)]  # last: n_in != d, both > 1
        if tier == "thorough":
            fam += [(3, 1, 1), (3, 2, 1), (2, 1, 2), (4, 2, 1), (3, 3, 1)]
    else:
        fam = [(2, 1, 1), (2, 1, 2), (2, 2, 2)]
        if tier == "thorough":
            fam += [(3, 1, 2), (3, 2, 2), (4, 2, 1), (3, 3, 1), (4, 1, 2)]
    return fam


# --------------------------------------------------------------------------------------
# contracts per layout
# --------------------------------------------------------------------------------------


def make_contracts(L):
    C = {}
    pre = f"{L.module}:{L.cond}"

    # ---- apply_flat ---------------------------------------------------------------------
    def apply_ens(res, self, x):
        A, b, Q = law(L, self)
        return [
            define("mean", res.mean_flat, L.mv(A, x) + b),
            eq("cov", cov(L, res), Q),
        ]

    def apply_inst(tier):
        out = []
        for n_in, n_out, d in _shape_family(tier, L):
            def make(rng, n_in=n_in, n_out=n_out, d=d):
                return (L.cond_obj(rng, n_out, n_in, d), L.point(rng, n_in, d)), {}
            out.append(Instance(f"n_in={n_in},n_out={n_out},d={d}", make, positive=_scalings(), names=_names))
        return out

    C["apply_flat"] = Contract(
        name=f"{pre}.apply_flat", module=L.module, qualname=f"{L.cond}.apply_flat",
        ensures=apply_ens, instances=apply_inst, requires=lambda self, x: pos_requires(self),
        doc="N(A_eff x + b_eff, Q_eff)",
    )

    # ---- marginalise --------------------------------------------------------------------
    def marg_ens(res, self, rv):
        A, b, Q = law(L, self)
        return [
            define("mean", res.mean_flat, L.mv(A, rv.mean_flat) + b),
            eq("cov", cov(L, res), L.mm(L.mm(A, cov(L, rv)), L.T(A)) + Q),
        ]

    def marg_inst(tier):
        out = []
        for n_in, n_out, d in _shape_family(tier, L):
            def make(rng, n_in=n_in, n_out=n_out, d=d):
                return (L.cond_obj(rng, n_out, n_in, d), L.normal_obj(rng, n_in, d)), {}
            out.append(Instance(f"n_in={n_in},n_out={n_out},d={d}", make, positive=_scalings(), names=_names))
        return out

    C["marginalise"] = Contract(
        name=f"{pre}.marginalise", module=L.module, qualname=f"{L.cond}.marginalise",
        ensures=marg_ens, instances=marg_inst, callees=[CU.sum_of_sqrtm_factors], requires=lambda self, rv: pos_requires(self),
        doc="N(A_eff m + b_eff, A_eff P A_eff^T + Q_eff)",
    )

    # ---- merge --------------------------------------------------------------------------
    def merge_ens(res, self, other):
        A1, b1, Q1 = law(L, self)
        A2, b2, Q2 = law(L, other)
        Ar, br, Qr = law(L, res)
        return [
            define("to_latent", res.to_latent, other.to_latent),
            define("to_observed", res.to_observed, self.to_observed),
            eq("linop", Ar, L.mm(A1, A2)),
            eq("offset", br, L.mv(A1, b2) + b1),
            eq("cov", Qr, L.mm(L.mm(A1, Q2), L.T(A1)) + Q1),
        ]

    def merge_inst(tier):
        out = []
        fam = [(2, 1, 1), (2, 2, 1)] + ([(2, 2, 2)] if L is not DenseL else [(1, 1, 2)])
        if tier == "thorough":
            fam += [(3, 2, 1), (3, 3, 1), (3, 2, 2) if L is not DenseL else (2, 1, 2)]
        for n_in, n_mid, d in fam:
            n_out = n_mid
            def make(rng, n_in=n_in, n_mid=n_mid, n_out=n_out, d=d):
                return (L.cond_obj(rng, n_out, n_mid, d), L.cond_obj(rng, n_mid, n_in, d)), {}
            out.append(Instance(f"n_in={n_in},n_mid={n_mid},n_out={n_out},d={d}", make, positive=_scalings(), names=_names))
        return out

    C["merge"] = Contract(
        name=f"{pre}.merge", module=L.module, qualname=f"{L.cond}.merge",
        ensures=merge_ens, instances=merge_inst, callees=[CU.sum_of_sqrtm_factors], requires=lambda self, other: pos_requires(self, other),
        doc="law(self.merge(other)) = law(self) o law(other)",
    )

    # ---- revert -------------------------------------------------------------------------
    def revert_ens(res, self, rv, *, solve_triu):
        observed, bwd = res
        A, b, Q = law(L, self)
        m, P = rv.mean_flat, cov(L, rv)
        S = L.mm(L.mm(A, P), L.T(A)) + Q
        G, xi, Xi = law(L, bwd)
        m_obs = L.mv(A, m) + b
        return [
            define("backward_to_latent", bwd.to_latent, 1.0 / self.to_observed),
            define("backward_to_observed", bwd.to_observed, 1.0 / self.to_latent),
            define("observed_mean", observed.mean_flat, m_obs),
            eq("observed_cov", cov(L, observed), S),
            eq("gain_equation", L.mm(G, S), L.mm(P, L.T(A))),
            eq("backward_offset", xi, m - L.mv(G, m_obs)),
            eq("backward_cov", Xi, P - L.mm(L.mm(G, S), L.T(G))),
            # the two factorisations p(y|x) p(x) and p(x|y) p(y) describe the same joint Gaussian law
            eq("joint_mean_of_x_preserved", L.mv(G, m_obs) + xi, m),
            eq("joint_cov_of_x_preserved", L.mm(L.mm(G, S), L.T(G)) + Xi, P),
            eq("joint_cross_cov_preserved", L.mm(G, S), L.mm(P, L.T(A))),
        ]

    def revert_inst(tier):
        out = []
        for n_in, n_out, d in _shape_family(tier, L):
            def make(rng, n_in=n_in, n_out=n_out, d=d):
                import probdiffeq.backend.linalg as LA

                return (L.cond_obj(rng, n_out, n_in, d), L.normal_obj(rng, n_in, d)), {"solve_triu": LA.solve_triu}
            out.append(Instance(f"n_in={n_in},n_out={n_out},d={d}", make, positive=_scalings(), names=_names))
        for n_in, n_out, d in _shape_family(tier, L)[:3]:
            def make_ls(rng, n_in=n_in, n_out=n_out, d=d):
                import probdiffeq.backend.linalg as LA

                return (L.cond_obj(rng, n_out, n_in, d), L.normal_obj(rng, n_in, d)), {"solve_triu": LA.lstsq_svd}
            out.append(Instance(f"n_in={n_in},n_out={n_out},d={d},lstsq", make_ls, positive=_scalings(), names=_names))
        return out

    C["revert"] = Contract(
        name=f"{pre}.revert", module=L.module, qualname=f"{L.cond}.revert",
        ensures=revert_ens, instances=revert_inst, callees=[CU.revert_conditional], requires=lambda self, rv, *, solve_triu: pos_requires(self) + CU.solver_requires(solve_triu),
        inherits=("revert_conditional#", "ghost_inverse#"),
        doc="observed = marginal of y; backward conditional (G,xi,Xi): G S = P A^T, xi = m - G(A m + b), Xi = P - G S G^T (all in effective coordinates)",
    )

    # ---- preconditioner_apply -------------------------------------------------------------
    def precon_ens(res, self):
        A, b, Q = law(L, self)
        return [
            eq("linop", res.A, A),
            eq("offset", res.noise.mean_flat, b),
            eq("cov", cov(L, res.noise), Q),
            eq("unit_to_latent", res.to_latent, 1.0),
            eq("unit_to_observed", res.to_observed, 1.0),
            # ... with the shapes of the scalings they replace (a swapped pair of all-ones vectors would only differ in shape)
        ] + scaling_shape_clauses(res)

    def precon_inst(tier):
        out = []
        for n_in, n_out, d in _shape_family(tier, L)[:3]:
            def make(rng, n_in=n_in, n_out=n_out, d=d):
                return (L.cond_obj(rng, n_out, n_in, d),), {}
            out.append(Instance(f"n_in={n_in},n_out={n_out},d={d}", make, positive=_scalings(), names=_names))
        return out

    C["preconditioner_apply"] = Contract(
        name=f"{pre}.preconditioner_apply", module=L.module, qualname=f"{L.cond}.preconditioner_apply",
        ensures=precon_ens, instances=precon_inst, requires=lambda self: pos_requires(self),
        doc="unit scalings and the same law",
    )
    return C


BY_LAYOUT = {L.tag: make_contracts(L) for L in LAYOUTS}
