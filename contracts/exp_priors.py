"""Contracts for the exponential (Ornstein-Uhlenbeck / Matern / general) priors of the dense model (C09).

The matrix exponential EXPM(X) and the finite-horizon Gramian GRAMQ(X, Q) = int_0^1 e^{sX} Q e^{sX^T} ds are
uninterpreted mathematical functions; the only facts used about them are two similarity identities (axioms,
listed in the evidence):   EXPM(T^-1 X T) = T^-1 EXPM(X) T,   GRAMQ(T^-1 X T, T^-1 Q T^-T) = T^-1 GRAMQ(X,Q) T^-T
for diagonal T.  The numerical routine ``gram_util.exp_gram_cholesky`` is abstracted by its contract
(eA = EXPM(A), L lower-triangular with L L^T = GRAMQ(A, B B^T)); its doubling step is verified separately, the
accuracy of its Pade / Legendre initialisation ('to working precision') is not decidable in real arithmetic.
"""

import jax
import jax.numpy as jnp
import numpy as np

from vcgen import interp, prims
from vcgen import poly as P
from vcgen.harness import Contract, Instance, eq, gt, holds

from .gaussians import DenseL, cov, law

GU = "probdiffeq.util.gram_util"
DM = "probdiffeq._probdiffeq.ssm_impl_dense"
_CACHE = {}


def _mathfun(name, native):
    def handler(ctx, prm, *xs):
        xs = [x if interp.is_obj(x) else interp.to_obj(x) for x in xs]
        key = (name, tuple(v.p.key() for x in xs for v in x.reshape(-1)))
        hit = _CACHE.get(key)
        if hit is None:
            shape = xs[0].shape
            hit, sids = prims.fresh_array(shape, f"{name}{len(_CACHE)}_", kind="uf")
            _CACHE[key] = hit
            prims.CALL_LOG.append({"name": f"mathfun::{name}", "operands": xs, "out_sids": [sids], "native": lambda *a: [np.asarray(native(*a))]})
        return [hit]

    prims.BASE_HANDLERS[f"mathfun_{name}"] = handler

    def call(*xs):
        if not prims.MODE.symbolic:
            return jnp.asarray(native(*[np.asarray(x) for x in xs]))
        (o,) = prims.bind_opaque(f"mathfun_{name}", [jnp.asarray(x) for x in xs], [jax.ShapeDtypeStruct(jnp.shape(xs[0]), jnp.result_type(float))], static=())
        return o

    return call


def _expm_native(X):
    import scipy.linalg

    return scipy.linalg.expm(np.asarray(X, dtype=float))


def _gramq_native(X, Q):
    import scipy.linalg

    n = X.shape[0]
    M = np.block([[X, Q], [np.zeros_like(X), -X.T]])
    E = scipy.linalg.expm(M)
    return E[:n, n:] @ E[:n, :n].T


EXPM = _mathfun("expm", _expm_native)
GRAMQ = _mathfun("gramq", _gramq_native)

_orig_reset = prims.reset


def _reset():
    _orig_reset()
    _CACHE.clear()


prims.reset = _reset


def abstract_exp_gram(A, B):
    """Contract of gram_util.exp_gram_cholesky(...)(A, B), used in place of the numerical routine."""
    eA = EXPM(A)
    if not prims.MODE.symbolic:
        G = GRAMQ(A, B @ B.T)
        return eA, jnp.linalg.cholesky(G + 1e-300 * jnp.eye(G.shape[0]))
    n = A.shape[0]
    (L,) = prims.bind_opaque("gramchol", [A, B], [jax.ShapeDtypeStruct((n, n), jnp.result_type(float))], static=())
    return eA, L


def _gramchol_handler(ctx, prm, A, B):
    A = A if interp.is_obj(A) else interp.to_obj(A)
    B = B if interp.is_obj(B) else interp.to_obj(B)
    n = A.shape[0]
    cid = prims._count("gramchol")
    L, sids = prims.fresh_array((n, n), f"Lg{cid}", mask=lambda ix: ix[0] >= ix[1])
    BBt = interp.h_dot_general(None, prims._FakeEqn(((1,), (1,)), ((), ())), B, B)
    (G,) = prims.BASE_HANDLERS["mathfun_gramq"](ctx, prm, A, BBt)
    LLt = interp.h_dot_general(None, prims._FakeEqn(((1,), (1,)), ((), ())), L, L)
    for i in range(n):
        for j in range(n):  # all entries: a Gramian is symmetric
            ctx.assume_eq(f"exp_gram#{cid}.LLt=GRAMQ[{i},{j}]", LLt[i, j] - G[i, j])
    prims.CALL_LOG.append({"name": "gramchol", "operands": [A, B], "out_sids": [sids], "native": lambda a, b: [np.linalg.cholesky(_gramq_native(np.asarray(a), np.asarray(b) @ np.asarray(b).T))]})
    return [L]


prims.BASE_HANDLERS["gramchol"] = _gramchol_handler


# ---- the doubling step of the numerical routine ---------------------------------------------------


def double_contract():
    def ensures(res, carry):
        i, (eA, U) = carry
        i2, (eA2, U2) = res
        n = U.shape[0]
        mask = jnp.triu(jnp.ones((n, n)), k=1)
        return [eq("counter", i2, i + 1), eq("exponential_squared", eA2, eA @ eA), eq("factor_lower_triangular", U2 * mask, 0.0),
                eq("gramian_doubling", U2 @ U2.T, U @ U.T + eA @ U @ U.T @ eA.T)]

    def instances(tier):
        out = []
        for n in (2, 3) + ((4,) if tier == "thorough" else ()):
            out.append(Instance(f"n={n}", lambda rng, n=n: (((jnp.asarray(1.0), (jnp.asarray(rng.normal(size=(n, n))), jnp.asarray(np.tril(rng.normal(size=(n, n)))))),), {})))
        return out

    return Contract(name=f"{GU}:_exp_gram_cholesky_double", module=GU, qualname="_exp_gram_cholesky_double", ensures=ensures, instances=instances,
                    doc="(e^A, U) -> (e^{2A}, U') with U'U'^T = U U^T + e^A U U^T e^{A^T} (doubling of the Gramian)")


# ---- transition() of the dense exponential prior -----------------------------------------------------


def transition_contract(kind, diffuse=0):
    """kind in {'general', 'ou', 'matern'}: prior built by the real constructor (inside the trace), with the
    numerical exp_gram routine abstracted by its contract."""

    def build(W, base, length, q, d):
        import probdiffeq._probdiffeq.ssm_impl_dense as M
        import probdiffeq.probdiffeq as pd
        from probdiffeq.util import gram_util

        old = gram_util.exp_gram_cholesky
        gram_util.exp_gram_cholesky = lambda *, pade_legendre, solve: abstract_exp_gram
        try:
            ssm = pd.state_space_model_dense()
            # q+1 coefficients in total, the last ``diffuse`` of them added as diffuse derivatives by the constructor
            tcoeffs = [jnp.zeros((d,)) + 0.1 * i for i in range(q + 1 - diffuse)]
            kw = dict(output_scale=base, diffuse_derivatives=diffuse, is_exact=False)
            if kind == "ou":
                return ssm.prior_ornstein_uhlenbeck_integrated(lambda u: W @ u, tcoeffs, **kw)
            if kind == "matern":
                return ssm.prior_matern(length, tcoeffs, **kw)
            ode = pd.ode_autonomous_order_arbitrary(lambda *us: sum(W[i] @ u for i, u in enumerate(us)), num_tcoeffs_in_args=q + 1)
            return ssm.prior_exponential(ode, tcoeffs, **kw)
        finally:
            gram_util.exp_gram_cholesky = old

    def drift(W, length, q, d):
        """Companion-form drift of the SDE  d^{q+1} u = (...) dt + Lambda dW  as stated in the documentation."""
        n = q + 1
        A = jnp.kron(jnp.diag(jnp.ones((q,)), k=1), jnp.eye(d))
        if kind == "ou":
            bottom = jnp.concatenate([jnp.zeros((d, q * d)), W], axis=1)
        elif kind == "matern":
            import math

            D = n
            z = jnp.sqrt(2 * (D - 0.5)) / length
            bottom = jnp.concatenate([-math.comb(D, i) * z ** (D - i) * jnp.eye(d) for i in range(n)], axis=1)
        else:
            bottom = jnp.concatenate([W[i] for i in range(n)], axis=1)
        return A.at[-d:, :].set(bottom)

    def wrap(target):
        def f(h, sigma, base, W, length, *, q, d):
            prior = build(W, base, length, q, d)
            return target(prior, dt=h, output_scale=sigma)

        return f

    def axioms(h, base, W, length, q, d):
        """Similarity identities of EXPM / GRAMQ for the diagonal preconditioner T = diag(p) (instances used)."""
        import math

        n = q + 1
        A = drift(W, length, q, d)
        Bm = jnp.kron(jnp.eye(n)[-1][:, None], jnp.diag(base))
        p = jnp.repeat(jnp.stack([h ** (q - i) / math.factorial(q - i) for i in range(n)]), d)
        pinv = 1.0 / p
        X, Qm = h * A, h * (Bm @ Bm.T)
        Xp = pinv[:, None] * X * p[None, :]
        Qp = pinv[:, None] * Qm * pinv[None, :]
        return A, Bm, p, pinv, X, Qm, Xp, Qp

    def requires(h, sigma, base, W, length, *, q, d):
        A, Bm, p, pinv, X, Qm, Xp, Qp = axioms(h, base, W, length, q, d)
        return [
            eq("axiom:EXPM_similarity(diagonal T)", EXPM(Xp), pinv[:, None] * EXPM(X) * p[None, :]),
            eq("axiom:GRAMQ_similarity(diagonal T)", GRAMQ(Xp, Qp), pinv[:, None] * GRAMQ(X, Qm) * pinv[None, :]),
        ]

    def ensures(res, h, sigma, base, W, length, *, q, d):
        A, Bm, p, pinv, X, Qm, Xp, Qp = axioms(h, base, W, length, q, d)
        Phi, b, Qn = law(DenseL, res)
        return [
            eq("transition_matrix_is_matrix_exponential_of_h_times_drift", Phi, EXPM(X)),
            eq("offset_zero", b, 0.0),
            eq("process_noise_is_finite_horizon_gramian_with_base_and_calibrated_scale", Qn, sigma * sigma * GRAMQ(X, Qm)),
            gt("to_latent_positive", res.to_latent), gt("to_observed_positive", res.to_observed),
        ]

    def instances(tier):
        fam = [(1, 1), (1, 2)] + ([(2, 1), (2, 2)] if tier == "thorough" else [])
        out = []
        for q, d in fam:
            def make(rng, q=q, d=d):
                Wshape = (d, d) if kind == "ou" else (q + 1, d, d)
                return (jnp.asarray(rng.uniform(0.1, 0.5)), jnp.asarray(rng.uniform(0.5, 2.0)), jnp.asarray(rng.uniform(0.5, 2.0, size=(d,))), jnp.asarray(rng.normal(size=Wshape)), jnp.asarray(rng.uniform(0.5, 2.0))), {"q": q, "d": d}
            out.append(Instance(f"{kind},q={q},d={d},diffuse={diffuse}", make, positive=lambda a, k: [a[0], a[1], a[2], a[4]], names=lambda a, k: {id(a[0]): "h", id(a[1]): "sigma", id(a[2]): "base", id(a[3]): "W", id(a[4]): "ell"}))
        return out

    return Contract(name=f"{DM}:DenseExponential.transition[{kind},diffuse={diffuse}]", module=DM, qualname="DenseExponential.transition", wrap=wrap,
                    requires=requires, ensures=ensures, instances=instances,
                    doc="after removing the preconditioner: (e^{hA}, 0, sigma^2 int_0^h e^{sA} B B^T e^{sA^T} ds) with A the documented companion drift and B = e_q (x) diag(base); prior built by the real constructor")


def contracts():
    return [double_contract(), transition_contract("general"), transition_contract("ou"), transition_contract("matern"),
            transition_contract("matern", diffuse=1), transition_contract("ou", diffuse=1), transition_contract("general", diffuse=1)]
