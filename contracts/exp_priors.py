"""Contracts for the exponential (Ornstein-Uhlenbeck / Matern / general) priors of the dense model (C09).

The matrix exponential EXPM(X) and the finite-horizon Gramian GRAMQ(X, Q) = int_0^1 e^{sX} Q e^{sX^T} ds are
uninterpreted mathematical functions; the only facts used about them are two similarity identities (axioms,
listed in the evidence):   EXPM(T^-1 X T) = T^-1 EXPM(X) T,   GRAMQ(T^-1 X T, T^-1 Q T^-T) = T^-1 GRAMQ(X,Q) T^-T
for diagonal T.  The numerical routine ``gram_util.exp_gram_cholesky`` is abstracted by its contract
(eA = EXPM(A), L lower-triangular with L L^T = GRAMQ(A, B B^T)); its doubling step is verified separately, the
accuracy of its Pade / Legendre initialisation ('to working precision') is not decidable in real arithmetic.
"""

import jax
import jax.numpy as jnp
import numpy as np

from vcgen import interp, prims
from vcgen import poly as P
from vcgen.harness import Contract, Instance, eq, ge, gt, holds, hoare_while

from .gaussians import DenseL, cov, law

GU = "probdiffeq.util.gram_util"
DM = "probdiffeq._probdiffeq.ssm_impl_dense"
_CACHE = {}


def _mathfun(name, native):
    def handler(ctx, prm, *xs):
        xs = [x if interp.is_obj(x) else interp.to_obj(x) for x in xs]
        key = (name, tuple(v.p.key() for x in xs for v in x.reshape(-1)))
        hit = _CACHE.get(key)
        if hit is None:
            shape = xs[0].shape
            hit, sids = prims.fresh_array(shape, f"{name}{len(_CACHE)}_", kind="uf")
            _CACHE[key] = hit
            prims.CALL_LOG.append({"name": f"mathfun::{name}", "operands": xs, "out_sids": [sids], "native": lambda *a: [np.asarray(native(*a))]})
        return [hit]

    prims.BASE_HANDLERS[f"mathfun_{name}"] = handler

    def call(*xs):
        if not prims.MODE.symbolic:
            return jnp.asarray(native(*[np.asarray(x) for x in xs]))
        (o,) = prims.bind_opaque(f"mathfun_{name}", [jnp.asarray(x) for x in xs], [jax.ShapeDtypeStruct(jnp.shape(xs[0]), jnp.result_type(float))], static=())
        return o

    return call


def _expm_native(X):
    import scipy.linalg

    return scipy.linalg.expm(np.asarray(X, dtype=float))


def _gramq_native(X, Q):
    import scipy.linalg

    n = X.shape[0]
    M = np.block([[X, Q], [np.zeros_like(X), -X.T]])
    E = scipy.linalg.expm(M)
    return E[:n, n:] @ E[:n, :n].T


EXPM = _mathfun("expm", _expm_native)
GRAMQ = _mathfun("gramq", _gramq_native)

_orig_reset = prims.reset


def _reset():
    _orig_reset()
    _CACHE.clear()


prims.reset = _reset


def abstract_exp_gram(A, B):
    """Contract of gram_util.exp_gram_cholesky(...)(A, B), used in place of the numerical routine."""
    eA = EXPM(A)
    if not prims.MODE.symbolic:
        G = GRAMQ(A, B @ B.T)
        return eA, jnp.linalg.cholesky(G + 1e-300 * jnp.eye(G.shape[0]))
    n = A.shape[0]
    (L,) = prims.bind_opaque("gramchol", [A, B], [jax.ShapeDtypeStruct((n, n), jnp.result_type(float))], static=())
    return eA, L


def _gramchol_handler(ctx, prm, A, B):
    A = A if interp.is_obj(A) else interp.to_obj(A)
    B = B if interp.is_obj(B) else interp.to_obj(B)
    n = A.shape[0]
    cid = prims._count("gramchol")
    L, sids = prims.fresh_array((n, n), f"Lg{cid}", mask=lambda ix: ix[0] >= ix[1])
    BBt = interp.h_dot_general(None, prims._FakeEqn(((1,), (1,)), ((), ())), B, B)
    (G,) = prims.BASE_HANDLERS["mathfun_gramq"](ctx, prm, A, BBt)
    LLt = interp.h_dot_general(None, prims._FakeEqn(((1,), (1,)), ((), ())), L, L)
    for i in range(n):
        for j in range(n):  # all entries: a Gramian is symmetric
            ctx.assume_eq(f"exp_gram#{cid}.LLt=GRAMQ[{i},{j}]", LLt[i, j] - G[i, j])
    prims.CALL_LOG.append({"name": "gramchol", "operands": [A, B], "out_sids": [sids], "native": lambda a, b: [np.linalg.cholesky(_gramq_native(np.asarray(a), np.asarray(b) @ np.asarray(b).T))]})
    return [L]


prims.BASE_HANDLERS["gramchol"] = _gramchol_handler


# ---- the doubling step of the numerical routine ---------------------------------------------------


def double_contract():
    def ensures(res, carry):
        i, (eA, U) = carry
        i2, (eA2, U2) = res
        n = U.shape[0]
        mask = jnp.triu(jnp.ones((n, n)), k=1)
        return [eq("counter", i2, i + 1), eq("exponential_squared", eA2, eA @ eA), eq("factor_lower_triangular", U2 * mask, 0.0),
                eq("gramian_doubling", U2 @ U2.T, U @ U.T + eA @ U @ U.T @ eA.T)]

    def instances(tier):
        out = []
        for n in (2, 3) + ((4,) if tier == "thorough" else ()):
            out.append(Instance(f"n={n}", lambda rng, n=n: (((jnp.asarray(1.0), (jnp.asarray(rng.normal(size=(n, n))), jnp.asarray(np.tril(rng.normal(size=(n, n)))))),), {})))
        return out

    return Contract(name=f"{GU}:_exp_gram_cholesky_double", module=GU, qualname="_exp_gram_cholesky_double", ensures=ensures, instances=instances,
                    doc="(e^A, U) -> (e^{2A}, U') with U'U'^T = U U^T + e^A U U^T e^{A^T} (doubling of the Gramian)")


# ---- the scaling-and-squaring loop of exp_gram_cholesky (while rule, every trip count) -------------------------

_CUR = {}


def loop_contract():
    """``exp_gram_cholesky(...)(A, B)`` with the initialiser abstracted (arbitrary (eA0, U0, s)): the loop applies the
    doubling recursion  Phi <- Phi^2,  G <- G + Phi G Phi^T  exactly ``count`` times to (eA0, U0 U0^T), where
    ``count`` is the smallest non-negative integer with count >= s; the final sign fix keeps the Gramian and makes
    the diagonal non-negative.  Ghost state: (count, Phi, G) advanced by the exact recursion."""

    def wrap(target):
        def f(A, B, eA0, U0, s):
            import importlib

            M = importlib.import_module(GU)
            seen = {}

            def init_stub(A_, B_, *, pade_legendre, solve):
                seen.update(A=A_, B=B_)
                return eA0, U0, s

            def inv(init, st, g):
                i, (eA, U) = st
                n = U.shape[0]
                mask = jnp.triu(jnp.ones((n, n)), k=1)
                return [
                    eq("counter_counts_doublings", i, g["count"]), ge("counter_nonneg", g["count"]),
                    holds("no_superfluous_doubling", jnp.logical_or(g["count"] <= 0.0, g["count"] - 1.0 < s)),
                    eq("exponential_is_ghost_recursion", eA, g["Phi"]),
                    eq("gramian_is_ghost_recursion", U @ U.T, g["G"]),
                    eq("factor_lower_triangular", U * mask, 0.0),
                ]

            rule = hoare_while(
                inv, name="doubling",
                ghost_init=lambda init: {"count": jnp.asarray(0.0), "Phi": init[1][0], "G": init[1][1] @ init[1][1].T},
                ghost_step=lambda init, st, g, st1: {"count": g["count"] + 1.0, "Phi": g["Phi"] @ g["Phi"], "G": g["G"] + g["Phi"] @ g["G"] @ g["Phi"].T},
                expose=lambda init, s2, g2: _CUR.update(ghost=g2),
            )
            old_init, old_loop = M._exp_gram_cholesky_init, M.flow.while_loop
            M._exp_gram_cholesky_init, M.flow.while_loop = init_stub, rule
            try:
                eA, U = target(pade_legendre=None, solve=None)(A, B)
            finally:
                M._exp_gram_cholesky_init, M.flow.while_loop = old_init, old_loop
            g2 = _CUR["ghost"]
            return eA, U, seen["A"], seen["B"], g2["count"], g2["Phi"], g2["G"]

        return f

    def requires(A, B, eA0, U0, s):
        n = U0.shape[0]
        return [eq("initial_factor_lower_triangular", U0 * jnp.triu(jnp.ones((n, n)), k=1), 0.0)]

    def ensures(res, A, B, eA0, U0, s):
        eA, U, A_seen, B_seen, count, Phi, Gm = res
        n = U.shape[0]
        mask = jnp.triu(jnp.ones((n, n)), k=1)
        return [
            eq("initialiser_receives_A", A_seen, A), eq("initialiser_receives_B", B_seen, B),
            eq("exponential_is_doubling_recursion_after_count_steps", eA, Phi),
            eq("gramian_is_doubling_recursion_after_count_steps", U @ U.T, Gm),
            eq("factor_lower_triangular", U * mask, 0.0),
            ge("factor_diagonal_nonnegative", jnp.diagonal(U)),
            ge("enough_doublings", count - s), ge("count_nonneg", count),
            holds("no_superfluous_doubling", jnp.logical_or(count <= 0.0, count - 1.0 < s)),
        ]

    def instances(tier):
        out = []
        for n in (2,) + ((3,) if tier == "thorough" else ()):
            def make(rng, n=n):
                return (jnp.asarray(rng.normal(size=(n, n))), jnp.asarray(rng.normal(size=(n, n))), jnp.asarray(rng.normal(size=(n, n))), jnp.asarray(np.tril(rng.normal(size=(n, n)))), jnp.asarray(2.0)), {}
            out.append(Instance(f"n={n}", make, names=lambda a, k: {id(a[0]): "A", id(a[1]): "B", id(a[2]): "eA0", id(a[3]): "U0", id(a[4]): "s"}))
        return out

    return Contract(name=f"{GU}:exp_gram_cholesky[loop]", module=GU, qualname="exp_gram_cholesky", wrap=wrap, requires=requires, ensures=ensures, instances=instances,
                    doc="scaling-and-squaring loop (while rule, all trip counts): result = doubling recursion applied ceil(max(s,0)) times to the initialiser's output; sign fix keeps the Gramian")


_ETA, _Q = 0.0006794818550677766, 3  # the constants of pade_and_legendre_3 (any positive values would do)


def init_scaling_contract():
    """``_exp_gram_cholesky_init``: the initialiser is called on (A / 2^s, B / sqrt(2^s)) with the returned s >= 0, and
    its outputs are passed through unchanged (the Pade/Legendre initialiser itself is abstract here; its order
    conditions are decided in pade_orders)."""

    def wrap(target):
        def f(A, B, E0, U0):
            import importlib

            M = importlib.import_module(GU)
            seen = {}

            def init_stub(A_, B_, *, solve):
                seen.update(A=A_, B=B_)
                return E0, U0

            pl = M.PadeLegendre(q=_Q, eta_fp64=_ETA, eta_fp32=0.048, init=init_stub)
            eA, S, num = target(A, B, pade_legendre=pl, solve=None)
            return eA, S, num, seen["A"], seen["B"]

        return f

    def ensures(res, A, B, E0, U0):
        eA, S, num, A_seen, B_seen = res
        p = 2.0**num
        return [
            ge("number_of_doublings_nonneg", num),
            eq("drift_scaled_by_2^-s", A_seen * p, A),
            eq("dispersion_scaled_by_2^-s/2", B_seen * jnp.sqrt(p), B),
            eq("exponential_passed_through", eA, E0), eq("factor_passed_through", S, U0),
            # purpose of the scaling: the Pade / Legendre initialiser is only accurate for small arguments
            ge("initialiser_called_inside_its_accuracy_radius(norm1 <= eta)", _ETA - jnp.max(jnp.sum(jnp.abs(A_seen), axis=0))),
            ge("enough_doublings_for_the_state_dimension((n-1) <= q 2^s)", _Q * p - (A.shape[0] - 1)),
        ]

    def instances(tier):
        out = []
        for n in (2, 3):
            def make(rng, n=n):
                return tuple(jnp.asarray(rng.normal(size=(n, n))) for _ in range(4)), {}
            out.append(Instance(f"n={n}", make, names=lambda a, k: {id(a[0]): "A", id(a[1]): "B", id(a[2]): "E0", id(a[3]): "U0"}))
        return out

    return Contract(name=f"{GU}:_exp_gram_cholesky_init", module=GU, qualname="_exp_gram_cholesky_init", wrap=wrap, ensures=ensures, instances=instances,
                    doc="scaling step: initialiser sees (A 2^-s, B 2^-s/2), s >= 0 is returned as the number of doublings")


# ---- transition() of the dense exponential prior -----------------------------------------------------


def transition_contract(kind, diffuse=0, explicit_std=False):
    """kind in {'general', 'ou', 'matern'}: prior built by the real constructor (inside the trace), with the
    numerical exp_gram routine abstracted by its contract."""

    def build(W, base, length, q, d):
        import probdiffeq._probdiffeq.ssm_impl_dense as M
        import probdiffeq.probdiffeq as pd
        from probdiffeq.util import gram_util

        old = gram_util.exp_gram_cholesky
        gram_util.exp_gram_cholesky = lambda *, pade_legendre, solve: abstract_exp_gram
        try:
            ssm = pd.state_space_model_dense()
            # q+1 coefficients in total, the last ``diffuse`` of them added as diffuse derivatives by the constructor
            tcoeffs = [jnp.zeros((d,)) + 0.1 * i for i in range(q + 1 - diffuse)]
            kw = dict(output_scale=base, diffuse_derivatives=diffuse)
            ode = pd.ode_autonomous_order_arbitrary(lambda *us: sum(W[i] @ u for i, u in enumerate(us)), num_tcoeffs_in_args=q + 1)
            if explicit_std:  # the constructors that take the initial standard deviations explicitly
                stds = [jnp.ones((d,)) * 0.3 for _ in tcoeffs]
                if kind == "ou":
                    return ssm.prior_ornstein_uhlenbeck_integrated_diffuse(lambda u: W @ u, tcoeffs, stds, **kw)
                if kind == "matern":
                    return ssm.prior_matern_diffuse(length, tcoeffs, stds, **kw)
                return ssm.prior_exponential_diffuse(ode, tcoeffs, stds, **kw)
            kw["is_exact"] = False
            if kind == "ou":
                return ssm.prior_ornstein_uhlenbeck_integrated(lambda u: W @ u, tcoeffs, **kw)
            if kind == "matern":
                return ssm.prior_matern(length, tcoeffs, **kw)
            return ssm.prior_exponential(ode, tcoeffs, **kw)
        finally:
            gram_util.exp_gram_cholesky = old

    def drift(W, length, q, d):
        """Companion-form drift of the SDE  d^{q+1} u = (...) dt + Lambda dW  as stated in the documentation."""
        n = q + 1
        A = jnp.kron(jnp.diag(jnp.ones((q,)), k=1), jnp.eye(d))
        if kind == "ou":
            bottom = jnp.concatenate([jnp.zeros((d, q * d)), W], axis=1)
        elif kind == "matern":
            import math

            D = n
            z = jnp.sqrt(2 * (D - 0.5)) / length
            bottom = jnp.concatenate([-math.comb(D, i) * z ** (D - i) * jnp.eye(d) for i in range(n)], axis=1)
        else:
            bottom = jnp.concatenate([W[i] for i in range(n)], axis=1)
        return A.at[-d:, :].set(bottom)

    def wrap(target):
        def f(h, sigma, base, W, length, *, q, d):
            prior = build(W, base, length, q, d)
            return target(prior, dt=h, output_scale=sigma)

        return f

    def axioms(h, base, W, length, q, d):
        """Similarity identities of EXPM / GRAMQ for the diagonal preconditioner T = diag(p) (instances used)."""
        import math

        n = q + 1
        A = drift(W, length, q, d)
        Bm = jnp.kron(jnp.eye(n)[-1][:, None], jnp.diag(base))
        p = jnp.repeat(jnp.stack([h ** (q - i) / math.factorial(q - i) for i in range(n)]), d)
        pinv = 1.0 / p
        X, Qm = h * A, h * (Bm @ Bm.T)
        Xp = pinv[:, None] * X * p[None, :]
        Qp = pinv[:, None] * Qm * pinv[None, :]
        return A, Bm, p, pinv, X, Qm, Xp, Qp

    def requires(h, sigma, base, W, length, *, q, d):
        A, Bm, p, pinv, X, Qm, Xp, Qp = axioms(h, base, W, length, q, d)
        return [
            eq("axiom:EXPM_similarity(diagonal T)", EXPM(Xp), pinv[:, None] * EXPM(X) * p[None, :]),
            eq("axiom:GRAMQ_similarity(diagonal T)", GRAMQ(Xp, Qp), pinv[:, None] * GRAMQ(X, Qm) * pinv[None, :]),
        ]

    def ensures(res, h, sigma, base, W, length, *, q, d):
        A, Bm, p, pinv, X, Qm, Xp, Qp = axioms(h, base, W, length, q, d)
        Phi, b, Qn = law(DenseL, res)
        return [
            eq("transition_matrix_is_matrix_exponential_of_h_times_drift", Phi, EXPM(X)),
            eq("offset_zero", b, 0.0),
            eq("process_noise_is_finite_horizon_gramian_with_base_and_calibrated_scale", Qn, sigma * sigma * GRAMQ(X, Qm)),
            gt("to_latent_positive", res.to_latent), gt("to_observed_positive", res.to_observed),
        ]

    def instances(tier):
        fam = [(1, 1), (1, 2)] + ([(2, 1), (2, 2)] if tier == "thorough" else [])
        out = []
        for q, d in fam:
            def make(rng, q=q, d=d):
                Wshape = (d, d) if kind == "ou" else (q + 1, d, d)
                return (jnp.asarray(rng.uniform(0.1, 0.5)), jnp.asarray(rng.uniform(0.5, 2.0)), jnp.asarray(rng.uniform(0.5, 2.0, size=(d,))), jnp.asarray(rng.normal(size=Wshape)), jnp.asarray(rng.uniform(0.5, 2.0))), {"q": q, "d": d}
            out.append(Instance(f"{kind},q={q},d={d},diffuse={diffuse}", make, positive=lambda a, k: [a[0], a[1], a[2], a[4]], names=lambda a, k: {id(a[0]): "h", id(a[1]): "sigma", id(a[2]): "base", id(a[3]): "W", id(a[4]): "ell"}))
        return out

    return Contract(name=f"{DM}:DenseExponential.transition[{kind},diffuse={diffuse}{',explicit_std' if explicit_std else ''}]", module=DM, qualname="DenseExponential.transition", wrap=wrap,
                    requires=requires, ensures=ensures, instances=instances,
                    doc="after removing the preconditioner: (e^{hA}, 0, sigma^2 int_0^h e^{sA} B B^T e^{sA^T} ds) with A the documented companion drift and B = e_q (x) diag(base); prior built by the real constructor")


def contracts():
    return [double_contract(), loop_contract(), init_scaling_contract(), transition_contract("general"), transition_contract("ou"), transition_contract("matern"),
            transition_contract("matern", diffuse=1), transition_contract("ou", diffuse=1), transition_contract("general", diffuse=1),
            transition_contract("matern", diffuse=1, explicit_std=True), transition_contract("ou", explicit_std=True), transition_contract("general", explicit_std=True)]
