"""Contracts for the Jacobian handlers (C17): an uninterpreted map f: (n_in, d) -> (n_out, d) with an
uninterpreted Jacobian tensor J[m, e, n, d]; probes are Rademacher symbols (v^2 = 1)."""

import jax
import jax.numpy as jnp
import numpy as np

from vcgen import prims
from vcgen.harness import Contract, Instance, eq, expectation_over_probes, holds

MOD = "probdiffeq._probdiffeq.jacobians"
_F = {}


def get_map(n_in, n_out, d):
    key = (n_in, n_out, d)
    if key not in _F:
        W = np.random.default_rng(5).normal(size=(n_out, d, n_in, d))

        def native(x):
            return jnp.tanh(jnp.einsum("menf,nf->me", jnp.asarray(W), x)) + 0.1 * jnp.sum(x**2)

        _F[key] = prims.make_uf(f"g_{n_in}_{n_out}_{d}", [(n_in, d)], (n_out, d), native=native, time_arg=False)
    return _F[key]


def handler_contract(cls, method, probes=None):
    mc = cls != "jacobian_materialize"

    def wrap(target):
        def f(x, key, w, *, n_in, n_out, d, kw):
            import probdiffeq._probdiffeq.jacobians as J

            g = get_map(n_in, n_out, d)
            h = getattr(J, cls)(num_probes=probes) if mc else getattr(J, cls)()
            state = key if (mc and method != "materialize_dense") else (key if mc else ())
            if not kw:
                return target(h, lambda s: g(s), x, state)

            # the map has a keyword parameter whose default differs from the forwarded value: the handler has to
            # evaluate and differentiate  s -> fun(s, **fun_kwargs),  not fun at its defaults
            def fun(s, *, shift=0.0):
                return g(s + shift)

            return target(h, fun, x, state, shift=w)

        return f

    def ensures(res, x, key, w, *, n_in, n_out, d, kw):
        import probdiffeq.backend.random as R

        g = get_map(n_in, n_out, d)
        fx, blk, state = res
        if kw:
            x = x + w  # value and Jacobian of s -> fun(s, shift=w) at x
        Jt = g.jac[0](x)  # (n_out, d, n_in, d)
        cl = [eq("value", fx, g(x))]
        if method == "materialize_dense":
            cl.append(eq("dense_jacobian", blk, Jt))
            target = None
        elif method == "calculate_trace_along_d":
            target = jnp.einsum("mene->mn", Jt)
        else:
            target = jnp.einsum("mene->emn", Jt)
        if target is not None and not mc:
            cl.append(eq("block", blk, target))
        if target is not None and mc:
            new_key, sub = R.split(key, num=2)
            cl.append(eq("key_advanced_to_first_half_of_split", state, new_key))
            cl.append(holds("block_layout", jnp.asarray(tuple(blk.shape) == tuple(target.shape))))
            cl.append(expectation_over_probes("unbiased_over_all_sign_probes", blk, target))
            # exact form of the estimator with the probes drawn from the second half of the split
            if cls.endswith("fwd"):
                v = R.rademacher(sub, shape=(probes, n_in, d), dtype=x.dtype)
                Jv = jnp.einsum("mend,snd->sme", Jt, v)
                if method == "calculate_trace_along_d":
                    est = jnp.mean(jnp.einsum("snd,smd->smn", v, Jv), axis=0)
                else:
                    est = jnp.transpose(jnp.mean(v[:, None, :, :] * Jv[:, :, None, :], axis=0), (2, 0, 1))
            else:
                v = R.rademacher(sub, shape=(probes, n_out, d), dtype=x.dtype)
                vJ = jnp.einsum("sme,mend->snd", v, Jt)
                if method == "calculate_trace_along_d":
                    est = jnp.mean(jnp.einsum("snd,smd->smn", vJ, v), axis=0)
                else:
                    est = jnp.transpose(jnp.mean(vJ[:, None, :, :] * v[:, :, None, :], axis=0), (2, 0, 1))
            cl.append(eq("hutchinson_estimator_with_probes_from_second_half_of_split", blk, est))
        if mc and method == "materialize_dense":
            cl.append(eq("state_passed_through", state, key))
        return cl

    def instances(tier):
        fam = [(1, 1, 1), (2, 1, 2), (1, 2, 2), (2, 2, 1)]
        if tier == "thorough":
            fam += [(2, 2, 2), (3, 2, 2), (2, 3, 1), (3, 3, 2)]
        out = []
        for n_in, n_out, d, kw in [(a, b, c, True) for a, b, c in fam] + [(2, 1, 2, False)]:
            def make(rng, n_in=n_in, n_out=n_out, d=d, kw=kw):
                import probdiffeq.backend.random as R

                return (jnp.asarray(rng.normal(size=(n_in, d))), R.prng_key(seed=3), jnp.asarray(rng.normal(size=(n_in, d)))), {"n_in": n_in, "n_out": n_out, "d": d, "kw": kw}
            out.append(Instance(f"n_in={n_in},n_out={n_out},d={d}" + (f",probes={probes}" if mc else "") + (",kwargs" if kw else ""), make, names=lambda a, k: {id(a[0]): "x", id(a[2]): "shift"}))
        return out

    tag = f"[probes={probes}]" if mc else ""
    return Contract(name=f"{MOD}:{cls}.{method}{tag}", module=MOD, qualname=f"{cls}.{method}", wrap=wrap, ensures=ensures, instances=instances,
                    doc="exact value / Jacobian blocks (materialize) or exactly unbiased Hutchinson estimates with the documented key advance (Monte Carlo)")


def contracts():
    out = []
    for m in ("materialize_dense", "calculate_trace_along_d", "calculate_diagonal_along_d"):
        out.append(handler_contract("jacobian_materialize", m))
    for cls in ("jacobian_monte_carlo_fwd", "jacobian_monte_carlo_rev"):
        out.append(handler_contract(cls, "materialize_dense", probes=2))
        for m in ("calculate_trace_along_d", "calculate_diagonal_along_d"):
            for probes in (1, 3):
                out.append(handler_contract(cls, m, probes=probes))
    return out
