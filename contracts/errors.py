"""Contracts for the error estimators and error norms (C07)."""

import jax
import jax.numpy as jnp
import numpy as np

from vcgen import prims
from vcgen.harness import Contract, Instance, eq, ge, gt, holds, independent_of

from . import gaussians as G
from . import ivp
from . import normals as N
from .gaussians import cov, law
from .solvers import whitened_rms_spec

MOD = "probdiffeq._probdiffeq.solvers"

# --------------------------------------------------------------------------------------
# the two error norms against their definitions
# --------------------------------------------------------------------------------------


def _norm_contract(kind):
    def wrap(target):
        def f(error_abs, reference, atol, rtol):
            return target()(error_abs, reference, atol=atol, rtol=rtol)

        return f

    def ensures(res, error_abs, reference, atol, rtol):
        if kind == "error_norm_scale_then_rms":
            scale = atol + rtol * jnp.abs(reference)
            scaled = error_abs / scale  # broadcasts when the error is shared by all dimensions (isotropic model)
            return [ge("nonneg", res), eq("rms_of_scaled_error", res * res * scaled.size, jnp.sum(scaled**2))]
        # rms first, then scale with the rms of the reference
        ra2 = jnp.sum(error_abs**2) / error_abs.size
        rr = jnp.sqrt(jnp.sum(reference**2)) / jnp.sqrt(reference.size)
        return [ge("nonneg", res), eq("rms_then_scale", (res * (atol + rtol * rr)) ** 2, ra2)]

    def instances(tier):
        out = []
        # (1, d): one error value shared by d dimensions with a d-dimensional reference (isotropic model)
        for k, kr in [(1, 1), (2, 2), (3, 3), (1, 2), (1, 3)] + ([(4, 4), (1, 4)] if tier == "thorough" else []):
            def make(rng, k=k, kr=kr):
                return (jnp.asarray(rng.uniform(0.1, 1.0, size=(k,))), jnp.asarray(rng.normal(size=(kr,))), jnp.asarray(rng.uniform(1e-3, 1e-1)), jnp.asarray(rng.uniform(1e-3, 1e-1))), {}
            out.append(Instance(f"size={k},ref={kr}", make, positive=lambda a, kw: [a[2], a[3]], nonneg=lambda a, kw: [a[0]], names=lambda a, kw: {id(a[0]): "err", id(a[1]): "ref", id(a[2]): "atol", id(a[3]): "rtol"}))
        return out

    return Contract(name=f"{MOD}:{kind}", module=MOD, qualname=kind, wrap=wrap, ensures=ensures, instances=instances,
                    doc="tolerance-weighted RMS norm as documented")


norm_contracts = [_norm_contract("error_norm_scale_then_rms"), _norm_contract("error_norm_rms_then_scale")]


def norm_agreement_contract(kind):
    """C14: the isotropic model reports one error value for all d dimensions, the dense model d equal values;
    both must be given the same norm (relational contract on the real norm, two calls)."""

    def wrap(target):
        def f(err, reference, atol, rtol):
            fn = target()
            return fn(err, reference, atol=atol, rtol=rtol), fn(jnp.broadcast_to(err, reference.shape), reference, atol=atol, rtol=rtol)

        return f

    def ensures(res, err, reference, atol, rtol):
        shared, per_dim = res
        return [ge("nonneg_shared", shared), ge("nonneg_per_dimension", per_dim), eq("one_shared_error_value_equals_d_equal_values", shared * shared, per_dim * per_dim)]

    def instances(tier):
        out = []
        for d in (2, 3) + ((4,) if tier == "thorough" else ()):
            def make(rng, d=d):
                return (jnp.asarray(rng.uniform(0.1, 1.0, size=(1,))), jnp.asarray(rng.normal(size=(d,))), jnp.asarray(rng.uniform(1e-3, 1e-1)), jnp.asarray(rng.uniform(1e-3, 1e-1))), {}
            out.append(Instance(f"d={d}", make, positive=lambda a, kw: [a[2], a[3]], nonneg=lambda a, kw: [a[0]], names=lambda a, kw: {id(a[0]): "err", id(a[1]): "ref", id(a[2]): "atol", id(a[3]): "rtol"}))
        return out

    return Contract(name=f"{MOD}:{kind}[shared_vs_per_dimension]", module=MOD, qualname=kind, wrap=wrap, ensures=ensures, instances=instances,
                    doc="norm of one error value shared by d dimensions == norm of d equal error values (isotropic vs dense error estimates)")


# --------------------------------------------------------------------------------------
# abstract norm used while verifying the estimators (the estimator treats it as a black box)
# --------------------------------------------------------------------------------------


def _norm_stub(ctx, err, ref, atol, rtol):
    from vcgen import interp, poly as P

    key = ("norm", tuple(v.p.key() for a in (err, ref, atol, rtol) for v in a.reshape(-1)))
    arr, sids = prims.fresh_array((), f"norm{prims._count('stub::norm')}", kind="stub", positive=True)
    prims.CALL_LOG.append({"name": "stub::norm", "operands": [err, ref, atol, rtol], "out_sids": [sids],
                           "native": lambda e, r, a, rt: [np.sqrt(np.mean((np.abs(e) / (a + rt * np.abs(np.broadcast_to(r, np.shape(e))))) ** 2))]})
    return [arr]


def abstract_norm(error_abs, reference, atol, rtol):
    from .adaptive import STUBS

    STUBS["norm"] = _norm_stub
    if not prims.MODE.symbolic:
        scale = atol + rtol * jnp.abs(reference)
        return jnp.sqrt(jnp.mean((jnp.abs(error_abs) / scale) ** 2))
    f64 = jnp.float64
    (o,) = prims.bind_opaque("stub::norm", [jnp.asarray(error_abs, f64), jnp.asarray(reference, f64), jnp.asarray(atol, f64), jnp.asarray(rtol, f64)], [jax.ShapeDtypeStruct((), f64)], static=())
    return o


# --------------------------------------------------------------------------------------
# estimate_error_norm
# --------------------------------------------------------------------------------------


class ECfg(ivp.Cfg):
    def __init__(self, layout, estimator="residual", relin=False, per_unit=False, idx=0, lin="ts0", q=1, d=1, order=1, calib="none", strategy="filter", pytree=False):
        super().__init__(layout, calib, strategy, lin, q=q, d=d, order=order, pytree=pytree)
        self.estimator, self.relin_err, self.per_unit, self.idx = estimator, relin, per_unit, idx

    @property
    def name(self):
        return f"{self.layout},{self.strategy},{self.estimator},{'relin' if self.relin_err else 'cached'},per_unit={self.per_unit},idx={self.idx},{self.lin},q={self.q},d={self.d},order={self.order}" + (",pytree" if self.pytree else "")


def estimator_contract(cfg: ECfg):
    L = cfg.L
    cls = "error_residual_std" if cfg.estimator == "residual" else "error_state_std"

    def build(rng):
        import probdiffeq.probdiffeq as pd

        ssm, ode, constraint, strategy, solver = ivp.make_solver(cfg)
        if cfg.estimator == "residual":
            est = pd.error_residual_std(constraint=constraint, error_norm=abstract_norm, re_linearize_before_error=cfg.relin_err, error_per_unit_step=cfg.per_unit)
        else:
            est = pd.error_state_std(constraint=constraint, error_norm=abstract_norm, re_linearize_before_error=cfg.relin_err, derivative_idx=cfg.idx, error_per_unit_step=cfg.per_unit)
        _, prev = ivp.make_state(cfg, rng, solver=solver, ssm=ssm)
        _, prop = ivp.make_state(cfg, rng, solver=solver, ssm=ssm)
        prev = ivp.tie_u(ivp.randomise(prev, rng, positive=ivp.positive_leaves(prev)))
        prop = ivp.tie_u(ivp.randomise(prop, rng, positive=ivp.positive_leaves(prop)))
        # the cached linearisation has unit scalings (from_linop_and_noise)
        fe = prop.fun_evals
        import dataclasses

        fe = type(fe)(fe.A, fe.noise, to_latent=jnp.ones_like(fe.to_latent), to_observed=jnp.ones_like(fe.to_observed))
        prop = dataclasses.replace(prop, fun_evals=fe)
        return est, est.init_error(), prev, prop

    def ensures(res, self, state, previous, proposed, *, dt, atol, rtol, damp):
        import probdiffeq.backend.linalg as LA
        from probdiffeq.backend import np as bnp

        error_power, _ = res
        n_coeffs, d, k = cfg.q + 1, cfg.d, cfg.order
        ones = jnp.ones_like(proposed.u.prototype_output_scale_calibrated())
        cond = previous.prior.transition(dt=dt, output_scale=ones)
        Phi, b0, Qh = law(L, cond)
        m0 = L.mv(Phi, previous.u.mean_flat) + b0  # mean-only prediction: zero covariance in
        if cfg.relin_err:
            H, b = ivp.linearise_spec(cfg, m0, proposed.t)
            lin = ivp.lin_cond(cfg, H, b, damp)
            R = ivp.damp_cov(cfg, H, damp)
        else:
            lin = proposed.fun_evals
            H, b, R = law(L, lin)
        S0 = L.mm(L.mm(H, Qh), L.T(H)) + R
        rv = cond.apply_flat(previous.u.mean_flat)
        cl = []
        if cfg.estimator == "residual":
            observed = lin.marginalise(rv)
            sigma, cl_sigma = whitened_rms_spec(cfg, observed, "local_scale")
            cl += cl_sigma
            cl += [eq("innovation_mean", observed.mean_flat, L.mv(H, m0) + b), eq("innovation_cov", cov(L, observed), S0)]
            # same pytree structure as the linearisation the code uses (the std contract is memoised per output structure)
            scaled = observed.rescale_cholesky(sigma)
            scaled = type(scaled)(scaled.mean_flat, scaled.cholesky_flat, proposed.fun_evals.noise.tree_flatten)
            err = jax.flatten_util.ravel_pytree(scaled._std_batched())[0]
            var = jnp.diagonal(S0, axis1=-2, axis2=-1)
            if L is G.IsoL:
                var_flat = var  # one std per observed row (scalar per coefficient)
                sig2 = sigma * sigma
            elif L is G.BlockL:
                var_flat = var.T.reshape(-1)
                sig2 = jnp.broadcast_to((sigma * sigma)[None, :], var.T.shape).reshape(-1)
            else:
                var_flat = var
                sig2 = sigma * sigma
            cl += [ge("error_nonneg", err), eq("error_is_calibrated_residual_std", err * err, sig2 * var_flat)]
            n = k  # residual_order - 1 for an ODE of order k
            u0 = jax.flatten_util.ravel_pytree(ivp.coeffs(L, previous.u.mean_flat, n_coeffs, d)[0])[0]
            u1 = jax.flatten_util.ravel_pytree(ivp.coeffs(L, proposed.u.mean_flat, n_coeffs, d)[0])[0]
        else:
            out = lin.revert(rv, solve_triu=LA.solve_triu)
            observed, bwd = out
            sigma, cl_sigma = whitened_rms_spec(cfg, observed, "local_scale")
            cl += cl_sigma
            cl += [eq("innovation_mean", observed.mean_flat, L.mv(H, m0) + b), eq("innovation_cov", cov(L, observed), S0)]
            K, xi, Xi = law(L, bwd)  # Xi = posterior covariance of the mean-only prediction
            zeros = jnp.zeros_like(observed.mean_flat)
            conditional = bwd.apply_flat(zeros)
            stds = conditional._std_batched()
            err = jnp.reshape(sigma, (-1,))[: 1 if L is not G.BlockL else None] * jax.flatten_util.ravel_pytree(stds[cfg.idx])[0] if L is not G.BlockL else sigma * jax.flatten_util.ravel_pytree(stds[cfg.idx])[0]
            var = jnp.diagonal(Xi, axis1=-2, axis2=-1)
            if L is G.DenseL:
                var_n = var[cfg.idx * d : (cfg.idx + 1) * d]
                sig2 = sigma * sigma
            elif L is G.IsoL:
                var_n = var[cfg.idx]
                sig2 = sigma * sigma
            else:
                var_n = var[:, cfg.idx]
                sig2 = sigma * sigma
            cl += [eq("gain_equation", L.mm(K, S0), L.mm(Qh, L.T(H))),
                   ge("error_nonneg", err), eq("error_is_calibrated_state_std", err * err, sig2 * var_n)]
            n = cfg.idx
            u0 = jax.flatten_util.ravel_pytree(ivp.coeffs(L, previous.u.mean_flat, n_coeffs, d)[n])[0]
            u1 = jax.flatten_util.ravel_pytree(ivp.coeffs(L, proposed.u.mean_flat, n_coeffs, d)[n])[0]
        if cfg.per_unit:
            n = n + 1
        reference = jnp.maximum(jnp.abs(u0), jnp.abs(u1))
        error_abs = err * dt**n / bnp.factorial(n)
        nu = abstract_norm(error_abs, reference, atol, rtol)
        cl += [
            eq("acceptance_quantity_is_norm^(-1/(q+1))", error_power, nu ** (-1.0 / n_coeffs)),
            independent_of("computed_from_previous_mean_only", error_power, [previous.u.cholesky_flat]),
        ]
        if hasattr(previous.solution_full, "conditional"):
            cl.append(independent_of("independent_of_backward_models", error_power, jax.tree_util.tree_leaves(previous.solution_full.conditional) + jax.tree_util.tree_leaves(proposed.solution_full.conditional)))
        return cl

    def instances(tier):
        def make(rng):
            est, st, prev, prop = build(rng)
            return (est, st, prev, prop), {"dt": jnp.asarray(rng.uniform(0.1, 0.5)), "atol": jnp.asarray(1e-3), "rtol": jnp.asarray(1e-2), "damp": jnp.asarray(rng.uniform(0.05, 0.2))}

        def positive(args, kwargs):
            fe = args[3].fun_evals
            return ivp.positive_leaves(args[2]) + ivp.positive_leaves(args[3]) + [kwargs["dt"], kwargs["atol"], kwargs["rtol"], fe.to_latent, fe.to_observed]

        def names(args, kwargs):
            return {id(kwargs["dt"]): "dt", id(kwargs["atol"]): "atol", id(kwargs["rtol"]): "rtol", id(kwargs["damp"]): "damp",
                    id(args[2].u.mean_flat): "m_prev", id(args[2].u.cholesky_flat): "L_prev", id(args[3].u.mean_flat): "m_new", id(args[3].t): "t_new", id(args[2].t): "t_prev"}

        return [Instance(cfg.name, make, positive=positive, nonneg=lambda a, k: [k["damp"]], names=names)]

    callees = [G.BY_LAYOUT[cfg.layout]["marginalise"], G.BY_LAYOUT[cfg.layout]["revert"], N.BY_LAYOUT[cfg.layout]["residual_whitened_rms_flat"], N.BY_LAYOUT[cfg.layout]["std"]]
    return Contract(
        name=f"{MOD}:{cls}.estimate_error_norm[{cfg.name}]", module=MOD, qualname=f"{cls}.estimate_error_norm",
        ensures=ensures, instances=instances, callees=callees,
        inherits=("revert#", "revert_conditional#", "solve_tril#", "residual_whitened_rms_flat#"),
        doc="acceptance quantity = norm(sigma_hat * std * dt^n/n!, max(|u_prev|,|u_new|))^(-1/(q+1)); previous mean only; cached / re-evaluated linearisation as configured",
    )


def configs(tier):
    out = []
    for layout in ("dense", "isotropic", "blockdiag"):
        out += [
            ECfg(layout, "residual", relin=False, per_unit=False, lin="ts0", q=1, d=2),
            ECfg(layout, "residual", relin=True, per_unit=True, lin="ts1", q=2, d=1),
            ECfg(layout, "residual", relin=True, per_unit=False, lin="ts0", q=2, d=1, order=2),
            ECfg(layout, "state", relin=False, per_unit=False, idx=0, lin="ts0", q=1, d=2),
            ECfg(layout, "state", relin=True, per_unit=True, idx=1, lin="ts1", q=2, d=1),
            ECfg(layout, "residual", relin=False, per_unit=False, lin="ts0", q=1, d=1, strategy="fixedpoint", calib="mle"),
            # pytree-structured state ({"a": (1,), "b": (1,)}): same flat specification (C15)
            ECfg(layout, "residual", relin=True, per_unit=False, lin="ts1", q=1, d=2, pytree=True),
            ECfg(layout, "state", relin=False, per_unit=False, idx=1, lin="ts0", q=1, d=2, pytree=True),
        ]
    return out


def pytree_configs():
    return [c for c in configs("thorough") if c.pytree]
