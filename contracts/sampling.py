"""Contracts for sampling from Markov sequences (C13)."""

import jax
import jax.numpy as jnp
import numpy as np

from vcgen.harness import Contract, Instance, affine_in_draws, eq, holds

from . import gaussians as G
from .gaussians import BlockL, DenseL, IsoL, cov, law

MOD = "probdiffeq._probdiffeq.estimators_and_losses"


def make_sequence(L, rng, N, n, d, reverse=True):
    from probdiffeq._probdiffeq.estimators_and_losses import MarkovSequence

    conds = [L.cond_obj(rng, n, n, d) for _ in range(N)]
    stacked = jax.tree_util.tree_map(lambda *xs: jnp.stack(xs), *conds)
    return MarkovSequence(L.normal_obj(rng, n, d), stacked, reverse=reverse)


def joint_law(L, seq, N, n, d):
    """Joint mean / covariance over the N+1 times of a (backward or forward) Markov sequence, written
    from the factorisation; returned in the order (time, coefficient, dimension)."""
    conds = [jax.tree_util.tree_map(lambda a: a[k], seq.conditional) for k in range(N)]
    laws = [law(L, c) for c in conds]
    rv = seq.marginal
    times = list(range(N + 1))
    mus, Ps = {}, {}
    start = N if seq.reverse else 0
    mus[start], Ps[start] = rv.mean_flat, cov(L, rv)
    order = range(N - 1, -1, -1) if seq.reverse else range(1, N + 1)
    for k in order:
        A, b, Q = laws[k] if seq.reverse else laws[k - 1]
        src = k + 1 if seq.reverse else k - 1
        mus[k] = L.mv(A, mus[src]) + b
        Ps[k] = L.mm(L.mm(A, Ps[src]), L.T(A)) + Q
    C = {}
    for l in times:
        C[(l, l)] = Ps[l]
    if seq.reverse:
        for l in times:
            for k in range(l - 1, -1, -1):
                C[(k, l)] = L.mm(laws[k][0], C[(k + 1, l)])
    else:
        for l in times:
            for k in range(l + 1, N + 1):
                C[(k, l)] = L.mm(laws[k - 1][0], C[(k - 1, l)])
    for (k, l) in list(C):
        C[(l, k)] = L.T(C[(k, l)])

    def mean_tcd(m):  # -> (n, d)
        if L is DenseL:
            return m.reshape(n, d)
        if L is IsoL:
            return m
        return m.T

    def cov_block(Ckl):  # -> (n, d, n, d)
        if L is DenseL:
            return Ckl.reshape(n, d, n, d)
        if L is IsoL:
            return jnp.einsum("nm,dt->ndmt", Ckl, jnp.eye(d))
        return jnp.einsum("dnm,dt->ndmt", Ckl, jnp.eye(d))

    mean = jnp.stack([mean_tcd(mus[t]) for t in times])  # (T, n, d)
    full = jnp.stack([jnp.stack([cov_block(C[(k, l)]) for l in times], axis=2) for k in times])  # (T, n, d, T, n, d)
    T = N + 1
    return mean.reshape(-1), full.reshape(T * n * d, T * n * d)


def sample_contract(L, reverse=True, batch=()):
    def wrap(target):
        def f(seq, key):
            out = target(seq, key, shape=batch)
            # caller's structure: list of n arrays (..., T, d) -> (..., T, n, d)
            return jnp.stack([jnp.asarray(x) for x in out], axis=-2)

        return f

    def ensures(res, seq, key):
        N = seq.conditional.A.shape[0]
        if L is BlockL:
            d, n = seq.marginal.mean_flat.shape
        elif L is IsoL:
            n, d = seq.marginal.mean_flat.shape
        else:
            n, d = len(seq.marginal.mean), seq.marginal.mean_flat.shape[0] // len(seq.marginal.mean)
        mean, C = joint_law(L, seq, N, n, d)
        cl = [holds("sample_shape_prepended", jnp.asarray(tuple(res.shape) == tuple(batch) + (N + 1, n, d)))]
        if batch:
            B = int(np.prod(batch))
            mean = jnp.tile(mean, B)
            C = jnp.kron(jnp.eye(B), C)
        cl.append(affine_in_draws("sample", res, mean, C))
        return cl

    def instances(tier):
        fam = [(2, 2, 1), (1, 2, 2)] if not batch else [(1, 1, 2)]
        if tier == "thorough" and not batch:
            fam += [(3, 2, 1), (2, 2, 2), (2, 3, 1)]
        out = []
        for N, n, d in fam:
            def make(rng, N=N, n=n, d=d):
                import probdiffeq.backend.random as R

                return (make_sequence(L, rng, N, n, d, reverse=reverse), R.prng_key(seed=7)), {}
            out.append(Instance(f"N={N},n={n},d={d}", make, positive=G._scalings()))
        return out

    tag = f"{L.tag},{'backward' if reverse else 'forward'}" + (f",shape={batch}" if batch else "")
    return Contract(name=f"{MOD}:MarkovSequence.sample[{tag}]", module=MOD, qualname="MarkovSequence.sample", wrap=wrap, ensures=ensures, instances=instances,
                    doc="samples are mean + J xi with J J^T the joint covariance defined by the Markov factorisation; zero draws give the marginal means; shapes are prepended")


def from_grid_contract(L):
    """``MarkovSequence.from_grid(prior, grid, reverse)``: the prior as a Markov sequence on the grid -- initial random
    variable of the prior, then one prior transition per grid interval (dt = increment, unit calibrated scale)."""
    import importlib

    def mkprior(tcoeffs, base):
        import probdiffeq.probdiffeq as pd

        ssm = {"dense": pd.state_space_model_dense, "isotropic": pd.state_space_model_isotropic, "blockdiag": pd.state_space_model_blockdiag}[L.tag]()
        return ssm.prior_wiener_integrated(list(tcoeffs), is_exact=False, output_scale=base)

    def wrap(target):
        def f(tcoeffs, grid, base):
            seq = target(mkprior(tcoeffs, base), grid=grid, reverse=False)
            T = grid.shape[0] - 1
            n_cond = jax.tree_util.tree_leaves(seq.conditional)[0].shape[0]
            laws = [law(L, jax.tree_util.tree_map(lambda a, k=k: a[k], seq.conditional)) for k in range(n_cond)]
            return seq.marginal.mean_flat, seq.marginal.cholesky_flat, laws

        return f

    def ensures(res, tcoeffs, grid, base):
        m0, c0, laws = res
        prior = mkprior(tcoeffs, base)
        cl = [eq("initial_mean_is_the_prior's", m0, prior.init.mean_flat), eq("initial_cholesky_is_the_prior's", c0, prior.init.cholesky_flat),
              holds("one_transition_per_grid_interval", jnp.asarray(len(laws) == grid.shape[0] - 1))]
        ones = jnp.ones_like(prior.init.prototype_output_scale_calibrated())
        for k in range(grid.shape[0] - 1):
            Ak, bk, Qk = law(L, prior.transition(dt=grid[k + 1] - grid[k], output_scale=ones))
            A, b, Q = laws[k]
            cl += [eq(f"transition_{k}_matrix", A, Ak), eq(f"transition_{k}_offset", b, bk), eq(f"transition_{k}_noise", Q, Qk)]
        return cl

    def instances(tier):
        out = []
        for n, d, T in [(2, 1, 3)] + ([(2, 2, 2), (3, 1, 4)] if tier == "thorough" else []):
            def make(rng, n=n, d=d, T=T):
                base = jnp.asarray(rng.uniform(0.5, 2.0, size=() if L is IsoL else (d,)))
                return (tuple(jnp.asarray(rng.normal(size=(d,))) for _ in range(n)), jnp.asarray(np.cumsum(rng.uniform(0.1, 0.4, size=(T,)))), base), {}
            out.append(Instance(f"n={n},d={d},grid={T}", make, positive=lambda a, k: [a[2]], names=lambda a, k: {id(a[1]): "grid", id(a[2]): "base"}))
        return out

    def requires(tcoeffs, grid, base):
        from vcgen.harness import gt

        return [gt("grid_increasing", grid[1:] - grid[:-1])]

    return Contract(name=f"{MOD}:MarkovSequence.from_grid[{L.tag}]", module=MOD, qualname="MarkovSequence.from_grid", wrap=wrap, requires=requires, ensures=ensures, instances=instances,
                    doc="prior on a grid: the prior's initial random variable and one prior transition per grid interval (increment as dt, unit calibrated scale)")


def contracts():
    out = [from_grid_contract(L) for L in G.LAYOUTS]
    for L in G.LAYOUTS:
        out += [sample_contract(L, True), sample_contract(L, False), sample_contract(L, True, batch=(2,))]
    # two batch axes of different extent: the requested shape is prepended in the requested order
    out += [sample_contract(G.LAYOUTS[0], True, batch=(1, 2)), sample_contract(G.LAYOUTS[1], False, batch=(2, 1))]
    return out
