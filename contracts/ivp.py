"""Builders for solver objects / states used as shape instances, and the textbook EKF step spec."""

from __future__ import annotations

import jax
import jax.numpy as jnp
import numpy as np

from vcgen import prims
from .gaussians import BlockL, DenseL, IsoL, cov, law

LAYOUT = {"dense": DenseL, "isotropic": IsoL, "blockdiag": BlockL}
_UF = {}


def get_uf(d, order):
    """Uninterpreted vector field f(x_0, ..., x_{order-1}, t) -> R^d with uninterpreted Jacobians."""
    key = (d, order)
    if key not in _UF:
        def native(*args):
            *xs, t = args
            out = jnp.zeros((d,))
            for i, x in enumerate(xs):
                out = out + jnp.tanh(x * (0.3 + 0.2 * i)) + 0.1 * (i + 1) * jnp.roll(x, 1) ** 2
            return out * (1.0 + 0.1 * t) + 0.05 * t * t
        _UF[key] = prims.make_uf(f"f_d{d}_o{order}", [(d,)] * order, (d,), native=native)
    return _UF[key]


class Cfg:
    def __init__(self, layout="dense", calib="none", strategy="filter", lin="ts0", q=1, d=1, order=1, relin=False, pytree=False, taylor="prior"):
        self.taylor = taylor  # "prior": linearise at the mean; "abstract": uninterpreted Taylor point xi(mean, cholesky) (dense TS1)
        self.layout, self.calib, self.strategy, self.lin = layout, calib, strategy, lin
        self.q, self.d, self.order, self.relin = q, d, order, relin
        self.pytree = pytree  # state is the pytree {"a": (1,), "b": (d-1,)} instead of an array of shape (d,)
        self.L = LAYOUT[layout]

    @property
    def name(self):
        s = f"{self.layout},{self.calib},{self.strategy},{self.lin},q={self.q},d={self.d},order={self.order}"
        return s + (",relin" if self.relin else "") + (",pytree" if getattr(self, "pytree", False) else "") + (",taylor=" + self.taylor if getattr(self, "taylor", "prior") != "prior" else "")


def pack(cfg, v):
    """flat (d,) array -> the state structure of the configuration."""
    if not getattr(cfg, "pytree", False):
        return v
    return {"a": v[:1], "b": v[1:]}


def unpack(cfg, x):
    if not getattr(cfg, "pytree", False):
        return x
    return jnp.concatenate([jnp.reshape(x["a"], (-1,)), jnp.reshape(x["b"], (-1,))])


_TP = {}


def taylor_point_uf(N):
    """Uninterpreted Taylor point  xi(mean, cholesky) in R^N  (stands for every rule that may use the covariance)."""
    if N not in _TP:
        _TP[N] = prims.make_uf(f"taylor_point_{N}", [(N,), (N, N)], (N,), native=lambda m, c: m + 0.05 * jnp.tanh(c @ jnp.ones((N,))), time_arg=False)
    return _TP[N]


class AbstractTaylorPoint:
    def __call__(self, constraint_flat, rv, **kw):
        return taylor_point_uf(rv.mean_flat.shape[0])(rv.mean_flat, rv.cholesky_flat)


def lin_point(cfg, rv):
    """Where the specification linearises for a constraint handed the random variable ``rv``."""
    if getattr(cfg, "taylor", "prior") == "abstract":
        return taylor_point_uf(rv.mean_flat.shape[0])(rv.mean_flat, rv.cholesky_flat)
    return rv.mean_flat


def make_ode(cfg):
    import probdiffeq.probdiffeq as pd

    f = get_uf(cfg.d, cfg.order)
    jac = pd.jacobian_materialize()
    if cfg.order == 1:
        return pd.ode(lambda y, /, *, t: pack(cfg, f(unpack(cfg, y), t)), jacobian=jac)
    if cfg.order == 2:
        return pd.ode_order_two(lambda y, dy, /, *, t: pack(cfg, f(unpack(cfg, y), unpack(cfg, dy), t)), jacobian=jac)
    raise ValueError


def make_solver(cfg, constraint_init=False):
    import probdiffeq.probdiffeq as pd

    ssm = {"dense": pd.state_space_model_dense, "isotropic": pd.state_space_model_isotropic, "blockdiag": pd.state_space_model_blockdiag}[cfg.layout]()
    ode = make_ode(cfg)
    if getattr(cfg, "taylor", "prior") == "abstract":
        assert cfg.layout == "dense" and cfg.lin == "ts1"
        constraint = ssm.constraint_ode_ts1(ode, taylor_point=AbstractTaylorPoint())
    else:
        constraint = ssm.constraint_ode_ts0(ode) if cfg.lin == "ts0" else ssm.constraint_ode_ts1(ode)
    strategy = {"filter": pd.strategy_filter, "fixedinterval": pd.strategy_smoother_fixedinterval, "fixedpoint": pd.strategy_smoother_fixedpoint}[cfg.strategy]()
    kw = {"constraint_init": constraint} if constraint_init else {}
    if cfg.calib == "none":
        solver = pd.solver(constraint=constraint, strategy=strategy, **kw)
    elif cfg.calib == "mle":
        solver = pd.solver_mle(constraint=constraint, strategy=strategy, **kw)
    else:
        solver = pd.solver_dynamic(constraint=constraint, strategy=strategy, re_linearize_after_calibration=cfg.relin, **kw)
    return ssm, ode, constraint, strategy, solver


def make_state(cfg, rng, solver=None, ssm=None):
    """A generic solver state: every float leaf random (scalings / scales positive)."""
    if solver is None:
        ssm, ode, constraint, strategy, solver = make_solver(cfg)
    tcoeffs = [pack(cfg, jnp.asarray(rng.normal(size=(cfg.d,)))) for _ in range(cfg.q + 1)]
    prior = ssm.prior_wiener_integrated(tcoeffs, is_exact=False)
    state = solver.init(t=jnp.asarray(0.3), u=prior, damp=jnp.asarray(0.1))
    state = randomise(state, rng)
    return solver, tie_u(state)


def filtering_marginal(state):
    sf = state.solution_full
    return sf.marginal if hasattr(sf, "marginal") else sf


def tie_u(state):
    """Representation invariant of solver states: ``u`` is the filtering marginal of ``solution_full``."""
    import dataclasses

    return dataclasses.replace(state, u=filtering_marginal(state))


def randomise(tree, rng, positive=()):
    pos = {id(x) for x in positive}

    def f(x):
        a = np.asarray(x)
        if a.dtype.kind == "f":
            return jnp.asarray(rng.uniform(0.5, 2.0, size=a.shape)) if id(x) in pos else jnp.asarray(rng.normal(size=a.shape))
        return x

    return jax.tree_util.tree_map(f, tree)


def positive_leaves(state):
    """Leaves of a ProbabilisticSolution that are positive by construction."""
    out = [state.output_scale, state.prior.output_scale]
    sf = state.solution_full
    if hasattr(sf, "conditional"):
        out += [sf.conditional.to_latent, sf.conditional.to_observed]
    if isinstance(state.auxiliary, tuple) and len(state.auxiliary) == 3:
        out += [state.auxiliary[2]]
    return out


def nonneg_leaves(state):
    if isinstance(state.auxiliary, tuple) and len(state.auxiliary) == 3:
        return [state.auxiliary[1]]
    return []


# --------------------------------------------------------------------------------------
# textbook pieces (written from the statement, layout-generic through the adapters)
# --------------------------------------------------------------------------------------


def coeffs(L, m, n, d):
    """List of the n Taylor coefficients (each shape (d,)) stored in a flat mean of layout L."""
    if L is DenseL:
        return [m[i * d : (i + 1) * d] for i in range(n)]
    if L is IsoL:
        return [m[i, :] for i in range(n)]
    return [m[:, i] for i in range(n)]


def linearise_spec(cfg, m_pred, t):
    """(H, b) of the linearised constraint  u^(k) - f(u..u^(k-1), t) = 0  at m_pred, documented structure."""
    L, n, d, k = cfg.L, cfg.q + 1, cfg.d, cfg.order
    f = get_uf(d, k)
    xs = coeffs(L, m_pred, n, d)[:k]
    fx = f(*xs, t)
    if cfg.lin == "ts0":
        if L is DenseL:
            H = jnp.zeros((d, n * d)).at[jnp.arange(d), k * d + jnp.arange(d)].set(1.0)
            b = -fx
        elif L is IsoL:
            H = jnp.zeros((1, n)).at[0, k].set(1.0)
            b = -fx[None, :]
        else:
            H = jnp.zeros((d, 1, n)).at[:, 0, k].set(1.0)
            b = -fx[:, None]
        return H, b
    # first order: residual r(x) = x_k - f(x_0..x_{k-1}, t)
    Js = [f.jac[i](*xs, t) for i in range(k)]  # each (d, d)
    r = coeffs(L, m_pred, n, d)[k] - fx
    if L is DenseL:
        H = jnp.zeros((d, n * d)).at[jnp.arange(d), k * d + jnp.arange(d)].set(1.0)
        for i in range(k):
            H = H.at[:, i * d : (i + 1) * d].add(-Js[i])
        b = r - H @ m_pred
    elif L is IsoL:
        H = jnp.zeros((1, n)).at[0, k].set(1.0)
        for i in range(k):
            H = H.at[0, i].add(-jnp.trace(Js[i]) / d)
        b = r[None, :] - H @ m_pred
    else:
        H = jnp.zeros((d, 1, n)).at[:, 0, k].set(1.0)
        for i in range(k):
            H = H.at[:, 0, i].add(-jnp.diagonal(Js[i]))
        b = r[:, None] - jnp.einsum("dkn,dn->dk", H, m_pred)
    return H, b


def damp_cov(cfg, H, damp):
    L = cfg.L
    K = H.shape[-2]
    eye = jnp.eye(K) * damp * damp
    if L is BlockL:
        eye = jnp.broadcast_to(eye, (H.shape[0], K, K))
    return eye


def predict_spec(cfg, state_mean, state_cov, cond):
    L = cfg.L
    Phi, b0, Qh = law(L, cond)
    m_pred = L.mv(Phi, state_mean) + b0
    P_pred = L.mm(L.mm(Phi, state_cov), L.T(Phi)) + Qh
    return Phi, m_pred, P_pred


def lin_cond(cfg, H, b, damp):
    """The linearised constraint as a conditional object of the layout (unit scalings, chol = damp I)."""
    L = cfg.L
    if L is DenseL:
        from probdiffeq._probdiffeq import ssm_impl_dense as M

        noise = M.DenseNormal.from_dirac([b], damp=damp)
        return M.DenseLatentCond.from_linop_and_noise(H, noise)
    if L is IsoL:
        from probdiffeq._probdiffeq import ssm_impl_isotropic as M

        noise = M.IsotropicNormal.from_dirac([b[0]], damp=damp)
        return M.IsotropicLatentCond.from_linop_and_noise(H, noise)
    from probdiffeq._probdiffeq import ssm_impl_blockdiag as M

    noise = M.BlockDiagNormal.from_dirac([b[:, 0]], damp=damp)
    return M.BlockDiagLatentCond.from_linop_and_noise(H, noise)
