"""Contracts for the smoothing machinery (C03, parts of C04): evaluate_marginals, Smoother.finalize,
filter finalize, userfriendly_output, solve_fixed_grid's hand-over of the last state."""

import dataclasses

import jax
import jax.numpy as jnp
import numpy as np

from vcgen.harness import Contract, Instance, eq, ge, gt, holds, hoare_scan

from . import gaussians as G
from . import ivp
from .gaussians import BlockL, DenseL, IsoL, cov, law, pos_requires
from .sampling import make_sequence

EL = "probdiffeq._probdiffeq.estimators_and_losses"


def _index(tree, k):
    return jax.tree_util.tree_map(lambda a: a[k], tree)


def backward_marginals(L, terminal_mean, terminal_cov, conditional, N):
    """RTS / backward-Markov recursion: (mean_k, cov_k) for k = 0..N from the terminal law."""
    means, covs = {N: terminal_mean}, {N: terminal_cov}
    for k in range(N - 1, -1, -1):
        A, b, Q = law(L, _index(conditional, k))
        means[k] = L.mv(A, means[k + 1]) + b
        covs[k] = L.mm(L.mm(A, covs[k + 1]), L.T(A)) + Q
    return [means[k] for k in range(N + 1)], [covs[k] for k in range(N + 1)]


def evaluate_marginals_contract(L):
    def ensures(res, seq):
        N = seq.conditional.A.shape[0]
        means, covs = backward_marginals(L, seq.marginal.mean_flat, cov(L, seq.marginal), seq.conditional, N)
        cl = [holds("one_marginal_per_time", jnp.asarray(res.mean_flat.shape[0] == N + 1))]
        for k in range(N + 1):
            cl += [eq(f"mean_t{k}", res.mean_flat[k], means[k]), eq(f"cov_t{k}", cov(L, _index(res, k)), covs[k])]
        return cl

    def instances(tier):
        out = []
        for N, n, d in [(1, 2, 1), (2, 2, 2), (3, 1, 2)] + ([(3, 2, 1), (2, 3, 1)] if tier == "thorough" else []):
            out.append(Instance(f"N={N},n={n},d={d}", lambda rng, N=N, n=n, d=d: ((make_sequence(L, rng, N, n, d, reverse=True),), {}), positive=G._scalings()))
        return out

    return Contract(name=f"{EL}:MarkovSequence.evaluate_marginals[{L.tag}]", module=EL, qualname="MarkovSequence.evaluate_marginals",
                    ensures=ensures, instances=instances, callees=[G.BY_LAYOUT[L.tag]["marginalise"]],
                    doc="marginals of the backward Markov factorisation: mean_k = G_k mean_{k+1} + b_k, cov_k = G_k cov_{k+1} G_k^T + Xi_k, terminal appended")


def _stack_states(L, rng, N, n, d):
    """(posterior0, posterior (N stacked), posterior1) as MarkovSequences with arbitrary contents."""
    from probdiffeq._probdiffeq.estimators_and_losses import MarkovSequence

    def one():
        return MarkovSequence(L.normal_obj(rng, n, d), L.cond_obj(rng, n, n, d), reverse=True)

    p0, p1 = one(), one()
    ps = [one() for _ in range(N)]
    stacked = jax.tree_util.tree_map(lambda *xs: jnp.stack(xs), *ps)
    return p0, stacked, p1


def finalize_contract(L):
    def wrap(target):
        def f(posterior0, posterior, posterior1, output_scale):
            from probdiffeq._probdiffeq.estimators_and_losses import strategy_smoother_fixedinterval

            return target(strategy_smoother_fixedinterval(), posterior0=posterior0, posterior=posterior, posterior1=posterior1, output_scale=output_scale)

        return f

    def ensures(res, posterior0, posterior, posterior1, output_scale):
        marginals, solution = res
        N = posterior.conditional.A.shape[0]
        s2 = (output_scale * output_scale)[..., None, None]
        # law at the final output time: the overstepped state mapped back through its backward model
        A1, b1, Q1 = law(L, posterior1.conditional)
        m1 = L.mv(A1, posterior1.marginal.mean_flat) + b1
        P1 = s2 * (L.mm(L.mm(A1, cov(L, posterior1.marginal)), L.T(A1)) + Q1)
        cond_scaled = posterior.conditional.rescale_noise(output_scale)
        means, covs = backward_marginals(L, m1, P1, cond_scaled, N)
        cl = []
        for k in range(N + 1):
            cl += [eq(f"smoothing_mean_t{k}", marginals.mean_flat[k], means[k]), eq(f"smoothing_cov_t{k}", cov(L, _index(marginals, k)), covs[k])]
        cl += [eq("terminal_of_returned_factorisation_mean", solution.posterior.marginal.mean_flat, m1),
               eq("terminal_of_returned_factorisation_cov", cov(L, solution.posterior.marginal), P1)]
        for k in range(N):
            Ak, bk, Qk = law(L, _index(solution.posterior.conditional, k))
            A0, b0, Q0 = law(L, _index(posterior.conditional, k))
            cl += [eq(f"backward_linop_t{k}", Ak, A0), eq(f"backward_offset_t{k}", bk, b0), eq(f"backward_noise_calibrated_t{k}", Qk, s2 * Q0)]
        cl += [eq("filtering_mean_t0", solution.filtering.mean_flat[0], posterior0.marginal.mean_flat),
               eq("filtering_cov_t0", cov(L, _index(solution.filtering, 0)), s2 * cov(L, posterior0.marginal))]
        for k in range(N):
            cl += [eq(f"filtering_mean_t{k+1}", solution.filtering.mean_flat[k + 1], posterior.marginal.mean_flat[k]),
                   eq(f"filtering_cov_t{k+1}", cov(L, _index(solution.filtering, k + 1)), s2 * cov(L, _index(posterior.marginal, k)))]
        return cl

    def instances(tier):
        out = []
        for N, n, d in [(1, 2, 1), (2, 2, 2), (3, 1, 2)] + ([(3, 2, 1)] if tier == "thorough" else []):
            def make(rng, N=N, n=n, d=d):
                p0, ps, p1 = _stack_states(L, rng, N, n, d)
                return (p0, ps, p1, jnp.asarray(rng.uniform(0.5, 2.0, size=(d,) if L is BlockL else ()))), {}
            out.append(Instance(f"N={N},n={n},d={d}", make, positive=lambda a, k: G._scalings()(a, k) + [a[3]]))
        return out

    return Contract(name=f"{EL}:Smoother.finalize[{L.tag}]", module=EL, qualname="Smoother.finalize", wrap=wrap,
                    ensures=ensures, instances=instances, callees=[G.BY_LAYOUT[L.tag]["marginalise"]],
                    doc="smoothing marginals = backward recursion started from posterior1's backward model applied to posterior1's marginal (the law at the final output time); covariances calibrated by output_scale^2; filtering marginals stacked")


def variance_lemma_contract(L):
    """One RTS step keeps 'smoothed <= filtered': if the backward noise is the RTS one and
    P^-_{k+1} - P^s_{k+1} = W W^T, then P_k - P^s_k = (G W)(G W)^T  (ghost factor W)."""

    def wrap(target):
        def f(cond, rv_smooth_next, P_filt, P_pred_next, W):
            return target(cond, rv_smooth_next)

        return f

    def requires(cond, rv_smooth_next, P_filt, P_pred_next, W):
        Gm, xi, Xi = law(L, cond)
        return pos_requires(cond) + [
            eq("filter_cov_symmetric", P_filt, L.T(P_filt)),
            eq("predicted_cov_symmetric", P_pred_next, L.T(P_pred_next)),
            eq("backward_noise_is_RTS", Xi, P_filt - L.mm(L.mm(Gm, P_pred_next), L.T(Gm))),
            eq("next_smoothed_below_predicted(ghost_factor)", P_pred_next - cov(L, rv_smooth_next), L.mm(W, L.T(W))),
        ]

    def ensures(res, cond, rv_smooth_next, P_filt, P_pred_next, W):
        Gm, _, _ = law(L, cond)
        GW = L.mm(Gm, W)
        return [eq("smoothed_below_filtered(ghost_factor)", P_filt - cov(L, res), L.mm(GW, L.T(GW)))]

    def instances(tier):
        out = []
        for n, d in [(2, 1), (2, 2)]:
            def make(rng, n=n, d=d):
                cond = L.cond_obj(rng, n, n, d)
                rv = L.normal_obj(rng, n, d)
                shp = rv.cholesky_flat.shape
                sym = lambda M: M + np.swapaxes(M, -1, -2)
                return (cond, rv, jnp.asarray(sym(rng.normal(size=shp))), jnp.asarray(sym(rng.normal(size=shp))), jnp.asarray(rng.normal(size=shp))), {}
            out.append(Instance(f"n={n},d={d}", make, positive=G._scalings()))
        return out

    return Contract(name=f"{L.module}:{L.cond}.marginalise[smoothed<=filtered]", module=L.module, qualname=f"{L.cond}.marginalise", wrap=wrap,
                    requires=requires, ensures=ensures, instances=instances, callees=[],
                    doc="inductive step of 'smoothed variances never exceed filtered ones' (sum-of-squares witness)")


def fixed_grid_contract(cfg):
    """solve_fixed_grid hands the last state to userfriendly_output such that the terminal smoothing
    marginal equals the filtering marginal at the final grid point."""
    L = cfg.L
    MODF = "probdiffeq._ivpsolve.solvers_via_fixed_steps"

    def wrap(target):
        def f(prior, grid, damp):
            import probdiffeq._ivpsolve.solvers_via_fixed_steps as M

            ssm, ode, constraint, strategy, solver = ivp.make_solver(cfg)
            CURF["final"] = None

            def inv(init, c, g):
                fm = ivp.filtering_marginal(c)
                cl = [eq("u_is_filtering_marginal_mean", c.u.mean_flat, fm.mean_flat), eq("u_is_filtering_marginal_chol", c.u.cholesky_flat, fm.cholesky_flat)]
                if hasattr(c.solution_full, "conditional"):
                    cl += [gt("backward_to_latent_positive", c.solution_full.conditional.to_latent), gt("backward_to_observed_positive", c.solution_full.conditional.to_observed)]
                return cl

            def keep(init, c):
                return dataclasses.replace(c, prior=init.prior)

            def last_rel(c, y):
                return [eq(f"emitted_state_is_the_carried_state{k}", a, b) for k, (a, b) in enumerate(zip(jax.tree_util.tree_leaves(y), jax.tree_util.tree_leaves(c)))]

            scan_rule = hoare_scan(inv, name="grid", keep=keep, last_rel=last_rel, x_hyp=lambda g, x: [gt("grid_increasing", x)])
            old = M.flow.scan

            def scan(step_func, init=None, xs=None, reverse=False, length=None):
                if CURF["final"] is not None:  # only the loop over the grid is replaced by the induction rule
                    return old(step_func, init=init, xs=xs, reverse=reverse, length=length)
                c2, ys = scan_rule(step_func, init=init, xs=xs, reverse=reverse, length=length)
                CURF["final"] = c2
                return c2, ys

            M.flow.scan = scan
            try:
                sol = target(solver=solver)(prior, grid=grid, damp=damp)
            finally:
                M.flow.scan = old
            final = CURF["final"]
            fm = ivp.filtering_marginal(final)
            return sol.u.mean_flat[-1], sol.u.cholesky_flat[-1], fm.mean_flat, fm.cholesky_flat, final.output_scale

        return f

    def requires(prior, grid, damp):
        return [gt("grid_increasing", grid[1:] - grid[:-1]), ge("damp_nonneg", damp)]

    def ensures(res, prior, grid, damp):
        m_last, c_last, m_filt, c_filt, scale = res
        covf = L.mm(c_filt, L.T(c_filt))
        return [eq("terminal_mean_is_filtering_mean_at_final_grid_point", m_last, m_filt),
                eq("terminal_cov_is_filtering_cov_at_final_grid_point", L.mm(c_last, L.T(c_last)), covf)]

    def instances(tier):
        def make(rng):
            ssm, ode, constraint, strategy, solver = ivp.make_solver(cfg)
            tcoeffs = [jnp.asarray(rng.normal(size=(cfg.d,))) for _ in range(cfg.q + 1)]
            prior = ssm.prior_wiener_integrated(tcoeffs, is_exact=False)
            return (prior, jnp.asarray(np.cumsum(rng.uniform(0.1, 0.3, size=(3,)))), jnp.asarray(0.1)), {}
        return [Instance(cfg.name, make, positive=lambda a, k: [a[0].output_scale])]

    return Contract(name=f"{MODF}:solve_fixed_grid[{cfg.name}]", module=MODF, qualname="solve_fixed_grid", wrap=wrap,
                    ensures=ensures, instances=instances, requires=requires,
                    callees=[G.BY_LAYOUT[cfg.layout]["marginalise"], G.BY_LAYOUT[cfg.layout]["revert"]], inherits=("revert#", "revert_conditional#", "lstsq"),
                    doc="when the last step ends exactly at the final time, the final marginal is the filtering marginal there")


CURF: dict = {}


def contracts():
    out = []
    for L in G.LAYOUTS:
        out += [evaluate_marginals_contract(L), finalize_contract(L), variance_lemma_contract(L)]
    for layout in ("dense", "isotropic", "blockdiag"):
        out.append(fixed_grid_contract(ivp.Cfg(layout, "none", "fixedinterval", "ts0", q=1, d=1)))
    out.append(fixed_grid_contract(ivp.Cfg("dense", "none", "filter", "ts0", q=1, d=1)))
    return out
