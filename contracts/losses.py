"""Contracts for the marginal-likelihood losses (C12)."""

import jax
import jax.numpy as jnp
import numpy as np

from vcgen.harness import Contract, Instance, eq, ge, gt, holds

from . import gaussians as G
from . import normals as N
from .gaussians import BlockL, DenseL, IsoL, cov, law
from .sampling import make_sequence

EL = "probdiffeq._probdiffeq.estimators_and_losses"


def _index(tree, k):
    return jax.tree_util.tree_map(lambda a: a[k], tree)


def _data_flat(L, u_leaf):
    """datum of shape (d,) for one Taylor coefficient -> flat observation in the layout."""
    if L is DenseL:
        return u_leaf
    if L is IsoL:
        return u_leaf[None, :]
    return u_leaf[:, None]


def _noise_cov(L, std, d):
    if L is DenseL:
        return jnp.diag(std * std)
    if L is IsoL:
        return (std * std).reshape(1, 1)
    return (std * std).reshape(d, 1, 1)


def _selector(L, n, d, i):
    if L is DenseL:
        return jnp.zeros((d, n * d)).at[jnp.arange(d), i * d + jnp.arange(d)].set(1.0)
    if L is IsoL:
        return jnp.zeros((1, n)).at[0, i].set(1.0)
    return jnp.zeros((d, 1, n)).at[:, 0, i].set(1.0)


def _std_like(L, rng, d):
    return jnp.asarray(rng.uniform(0.5, 2.0, size=() if L is IsoL else (d,)))


def terminal_contract(L):
    def wrap(target):
        def f(u, marginals, std, *, i):
            return target(tcoeff_index=i)(u, marginals=marginals, std=std)

        return f

    def ensures(res, u, marginals, std, *, i):
        if L is BlockL:
            d, n = marginals.mean_flat.shape
        elif L is IsoL:
            n, d = marginals.mean_flat.shape
        else:
            n = len(marginals.mean)
            d = marginals.mean_flat.shape[0] // n
        E = _selector(L, n, d, i)
        model = marginals.to_derivative(i, std)
        marg = model.marginalise(marginals)
        val, cl = N.logpdf_spec(L, marg, _data_flat(L, u))
        S = L.mm(L.mm(E, cov(L, marginals)), L.T(E)) + _noise_cov(L, std, d)
        return cl + [
            eq("observed_mean_is_selected_coefficient", marg.mean_flat, L.mv(E, marginals.mean_flat)),
            eq("observed_cov_is_marginal_plus_noise", cov(L, marg), S),
            eq("loss_is_log_density_of_datum", res, val),
        ]

    def instances(tier):
        out = []
        for n, d, i in [(2, 1, 0), (2, 2, 1), (3, 2, 1)] + ([(3, 2, 2)] if tier == "thorough" else []):
            def make(rng, n=n, d=d, i=i):
                return (jnp.asarray(rng.normal(size=(d,))), L.normal_obj(rng, n, d), _std_like(L, rng, d)), {"i": i}
            out.append(Instance(f"n={n},d={d},i={i}", make, positive=lambda a, k: [a[2]]))
        return out

    cs = [N.BY_LAYOUT[L.tag]["to_derivative"], G.BY_LAYOUT[L.tag]["marginalise"], N.BY_LAYOUT[L.tag]["logpdf_flat"]]
    return Contract(name=f"{EL}:loss_lml_terminal_values[{L.tag}]", module=EL, qualname="loss_lml_terminal_values", wrap=wrap, ensures=ensures, instances=instances,
                    callees=cs[1:], inherits=("solve_tril#", "solve_triu#", "logpdf_flat#"),
                    doc="log-density of the datum under N(E_i m, E_i P E_i^T + diag(std^2))")


def timeseries_contract(L, average):
    """evaluate_lml: backward filtering of the data; each term is log p(y_k | y_{k+1..N})."""

    def wrap(target):
        def f(u, seq, std, *, i, solver):
            import probdiffeq.backend.linalg as LA

            if solver == "default":  # the documented default: the least-squares solve (noise-free data at t0)
                return target(average_pdfs=average, tcoeff_index=i)(u, posterior=seq, std=std)
            return target(average_pdfs=average, tcoeff_index=i, solve_triu=LA.solve_triu)(u, posterior=seq, std=std)

        return f

    def ensures(res, u, seq, std, *, i, solver="explicit"):
        import probdiffeq.backend.linalg as LA

        Nn = seq.conditional.A.shape[0]
        if L is BlockL:
            d, n = seq.marginal.mean_flat.shape
        elif L is IsoL:
            n, d = seq.marginal.mean_flat.shape
        else:
            n = len(seq.marginal.mean)
            d = seq.marginal.mean_flat.shape[0] // n
        E = _selector(L, n, d, i)
        cl = []
        # Each clause relates one stage to the previous one (prediction, innovation, gain, update); the stages
        # chain by substitution to the textbook backward-filter recursion started at the terminal marginal.
        rv = seq.marginal
        terms = []
        for k in range(Nn, -1, -1):
            if k < Nn:
                condk = _index(seq.conditional, k)
                A, b, Q = law(L, condk)
                prev_m, prev_P = rv.mean_flat, cov(L, rv)
                rv = condk.marginalise(rv)
                cl += [eq(f"predicted_mean_t{k}", rv.mean_flat, L.mv(A, prev_m) + b), eq(f"predicted_cov_t{k}", cov(L, rv), L.mm(L.mm(A, prev_P), L.T(A)) + Q)]
            m, P = rv.mean_flat, cov(L, rv)
            stdk = std[k]
            model = rv.to_derivative(i, stdk)
            observed, bwd = model.revert(rv, solve_triu=LA.lstsq_svd if solver == "default" else LA.solve_triu)  # memoised contract call
            S = L.mm(L.mm(E, P), L.T(E)) + _noise_cov(L, stdk, d)
            y = _data_flat(L, u[k])
            val, clk = N.logpdf_spec(L, observed, y)
            K, _, _ = law(L, bwd)
            cl += [eq(f"innovation_mean_t{k}", observed.mean_flat, L.mv(E, m)), eq(f"innovation_cov_t{k}", cov(L, observed), S)]
            terms.append(val)
            cl.append(eq(f"gain_equation_t{k}", L.mm(K, S), L.mm(P, L.T(E))))
            rv = bwd.apply_flat(y)
            cl += [eq(f"updated_mean_t{k}", rv.mean_flat, m + L.mv(K, y - L.mv(E, m))), eq(f"updated_cov_t{k}", cov(L, rv), P - L.mm(L.mm(K, S), L.T(K)))]
        total = sum(terms)
        cl.append(eq("loss_is_sum_or_mean_of_conditional_log_densities", res, total / len(terms) if average else total))
        return cl

    def instances(tier):
        out = []
        fam = [(1, 2, 1, 0, "explicit"), (2, 2, 1, 1, "default"), (1, 1, 2, 0, "default")] + ([(2, 2, 2, 0, "explicit"), (3, 2, 1, 0, "default")] if tier == "thorough" else [])
        for Nn, n, d, i, solver in fam:
            def make(rng, Nn=Nn, n=n, d=d, i=i, solver=solver):
                seq = make_sequence(L, rng, Nn, n, d, reverse=True)
                u = jnp.asarray(rng.normal(size=(Nn + 1, d)))
                std = jnp.asarray(rng.uniform(0.5, 2.0, size=(Nn + 1,) if L is IsoL else (Nn + 1, d)))
                return (u, seq, std), {"i": i, "solver": solver}
            out.append(Instance(f"N={Nn},n={n},d={d},i={i}" + (",default-solver" if solver == "default" else ""), make, positive=lambda a, k: G._scalings()(a, k) + [a[2]]))
        return out

    cs = [G.BY_LAYOUT[L.tag]["marginalise"], G.BY_LAYOUT[L.tag]["revert"], N.BY_LAYOUT[L.tag]["logpdf_flat"]]
    return Contract(name=f"{EL}:loss_lml_timeseries[{L.tag},{'mean' if average else 'sum'}]", module=EL, qualname="loss_lml_timeseries", wrap=wrap, ensures=ensures, instances=instances,
                    callees=cs, inherits=("revert#", "revert_conditional#", "solve_tril#", "solve_triu#", "logpdf_flat#"),
                    doc="sum (or mean) over time of log p(y_k | y_{k+1..N}) computed by backward Kalman filtering along the backward Markov factorisation; per-time (and per-dimension) noise")


def contracts():
    out = []
    for L in G.LAYOUTS:
        out += [terminal_contract(L), timeseries_contract(L, True), timeseries_contract(L, False)]
    return out
