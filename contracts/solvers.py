"""Contracts for the solver steps (C02, C04): one step == one textbook EKF step.

The specification is the covariance-form extended Kalman filter of the statement, written
layout-generically; the Kalman gain is a ghost witness obtained from the (memoised) contract call of
``revert`` on the same arguments, so the postcondition stays inverse-free:
    K S = P^- H^T,   m^+ = m^- - K (H m^- + b),   P^+ = P^- - K S K^T,   S = H P^- H^T + damp^2 I.
"""

import jax
import jax.numpy as jnp
import numpy as np

from vcgen.harness import Contract, Instance, define, eq, ge, holds

from . import gaussians as G
from . import ivp
from .gaussians import cov, law


def _ones_scale(cfg, state):
    return jnp.ones_like(state.u.prototype_output_scale_calibrated())


def ekf_spec(cfg, state, dt, damp, scale):
    """Returns dict with m_pred, P_pred, H, b, S, K, m_post, P_post (K = ghost witness)."""
    import probdiffeq.backend.linalg as LA

    L = cfg.L
    cond = state.prior.transition(dt=dt, output_scale=scale)
    m, P = state.u.mean_flat, cov(L, state.u)
    Phi, m_pred, P_pred = ivp.predict_spec(cfg, m, P, cond)
    H, b = ivp.linearise_spec(cfg, m_pred, state.t + dt)
    R = ivp.damp_cov(cfg, H, damp)
    S = L.mm(L.mm(H, P_pred), L.T(H)) + R
    # ghost witness for the gain: the backward conditional of the same conditioning problem
    pred = cond.marginalise(state.u)
    lin = ivp.lin_cond(cfg, H, b, damp)
    observed, bwd = lin.revert(pred, solve_triu=LA.solve_triu)
    K, _, _ = law(L, bwd)
    resid = L.mv(H, m_pred) + b
    m_post = m_pred - L.mv(K, resid)
    P_post = P_pred - L.mm(L.mm(K, S), L.T(K))
    return dict(cond=cond, m_pred=m_pred, P_pred=P_pred, H=H, b=b, S=S, K=K, resid=resid, m_post=m_post, P_post=P_post, observed=observed, pred=pred, lin=lin)


def _frame(res, state, dt):
    cl = [eq("time", res.t, state.t + dt), eq("num_steps", res.num_steps, state.num_steps + 1)]
    fm = ivp.filtering_marginal(res)
    cl += [eq("u_is_filtering_marginal_mean", res.u.mean_flat, fm.mean_flat), eq("u_is_filtering_marginal_chol", res.u.cholesky_flat, fm.cholesky_flat)]
    for k, (a, b) in enumerate(zip(jax.tree_util.tree_leaves(res.prior), jax.tree_util.tree_leaves(state.prior))):
        cl.append(eq(f"prior_unchanged{k}", a, b))
    return cl


def step_contract(cfg: ivp.Cfg):
    L = cfg.L
    cls = {"none": "solver", "mle": "solver_mle", "dynamic": "solver_dynamic"}[cfg.calib]

    def ensures(res, self, state, *, dt, damp):
        cl = _frame(res, state, dt)
        if cfg.calib in ("none", "mle"):
            sp = ekf_spec(cfg, state, dt, damp, _ones_scale(cfg, state))
            cl += [
                eq("gain_equation", L.mm(sp["K"], sp["S"]), L.mm(sp["P_pred"], L.T(sp["H"]))),
                eq("posterior_mean", res.u.mean_flat, sp["m_post"]),
                eq("posterior_cov", cov(L, res.u), sp["P_post"]),
            ]
            Hc, bc, Rc = law(L, res.fun_evals)
            cl += [eq("cached_linearisation_H", Hc, sp["H"]), eq("cached_linearisation_b", bc, sp["b"])]
        if cfg.calib == "none":
            cl += [eq("output_scale_one", res.output_scale, 1.0)]
        return cl

    def instances(tier):
        out = []

        def make(rng):
            solver, state = ivp.make_state(cfg, rng)
            state = ivp.tie_u(ivp.randomise(state, rng, positive=ivp.positive_leaves(state)))
            return (solver, state), {"dt": jnp.asarray(rng.uniform(0.1, 0.5)), "damp": jnp.asarray(rng.uniform(0.05, 0.2))}

        def positive(args, kwargs):
            return ivp.positive_leaves(args[1]) + [kwargs["dt"]]

        def nonneg(args, kwargs):
            return ivp.nonneg_leaves(args[1]) + [kwargs["damp"]]

        def names(args, kwargs):
            st = args[1]
            nm = {id(st.t): "t", id(st.u.mean_flat): "m", id(st.u.cholesky_flat): "L", id(kwargs["dt"]): "dt", id(kwargs["damp"]): "damp", id(st.num_steps): "nsteps"}
            pr = st.prior
            for k in ("A", "a", "Q", "q_sqrtm", "q0", "output_scale"):
                if hasattr(pr, k):
                    nm[id(getattr(pr, k))] = "prior." + k
            return nm

        out.append(Instance(cfg.name, make, positive=positive, nonneg=nonneg, names=names, symbolic_ints=lambda a, k: []))
        return out

    mod = "probdiffeq._probdiffeq.solvers"
    callees = [G.BY_LAYOUT[cfg.layout]["marginalise"], G.BY_LAYOUT[cfg.layout]["revert"]]
    return Contract(
        name=f"{mod}:{cls}.step[{cfg.name}]", module=mod, qualname=f"{cls}.step",
        ensures=ensures, instances=instances, callees=callees,
        inherits=("revert#", "revert_conditional#"),
        doc="one step == predict with the prior transition, linearise at the predicted mean, condition on zero data (textbook EKF)",
    )
