"""Contracts for the solver steps (C02, C04): one step == one textbook EKF step.

The specification is the covariance-form extended Kalman filter of the statement, written
layout-generically; the Kalman gain is a ghost witness obtained from the (memoised) contract call of
``revert`` on the same arguments, so the postcondition stays inverse-free:
    K S = P^- H^T,   m^+ = m^- - K (H m^- + b),   P^+ = P^- - K S K^T,   S = H P^- H^T + damp^2 I.
"""

import jax
import jax.numpy as jnp
import numpy as np

from vcgen.harness import Contract, Instance, define, eq, ge, holds, independent_of

from . import gaussians as G
from . import ivp
from .gaussians import cov, law


def _ones_scale(cfg, state):
    return jnp.ones_like(state.u.prototype_output_scale_calibrated())


def ekf_spec(cfg, state, dt, damp, scale, lin_at=None):
    """Returns dict with m_pred, P_pred, H, b, S, K, m_post, P_post (K = ghost witness).

    ``scale`` multiplies the process noise; ``lin_at`` optionally fixes the linearisation (H, b).
    """
    import probdiffeq.backend.linalg as LA

    L = cfg.L
    cond = state.prior.transition(dt=dt, output_scale=scale)
    filt = ivp.filtering_marginal(state)
    m, P = filt.mean_flat, cov(L, filt)
    Phi, m_pred, P_pred = ivp.predict_spec(cfg, m, P, cond)
    # ghost witnesses: the (memoised) contract calls of the same conditioning problems
    out = {}
    if cfg.strategy == "filter":
        pred = cond.marginalise(filt)
    else:
        pred, back = cond.revert(filt, solve_triu=LA.solve_triu)
        out["back"] = back
    # linearisation point: the predicted mean, or (abstract Taylor point) a function of the predicted random variable
    H, b = lin_at if lin_at is not None else ivp.linearise_spec(cfg, ivp.lin_point(cfg, pred) if cfg.taylor == "abstract" else m_pred, state.t + dt)
    R = ivp.damp_cov(cfg, H, damp)
    S = L.mm(L.mm(H, P_pred), L.T(H)) + R
    lin = ivp.lin_cond(cfg, H, b, damp)
    observed, bwd = lin.revert(pred, solve_triu=LA.solve_triu)
    K, _, _ = law(L, bwd)
    resid = L.mv(H, m_pred) + b
    m_post = m_pred - L.mv(K, resid)
    P_post = P_pred - L.mm(L.mm(K, S), L.T(K))
    out.update(cond=cond, Phi=Phi, m=m, P=P, m_pred=m_pred, P_pred=P_pred, H=H, b=b, S=S, K=K, resid=resid, m_post=m_post, P_post=P_post, observed=observed, pred=pred, lin=lin)
    return out


def whitened_rms_spec(cfg, observed, name):
    """Clauses tying ``term`` (ghost, memoised contract call) to the definition of the whitened RMS."""
    import probdiffeq.backend.linalg as LA

    L = cfg.L
    zeros = jnp.zeros_like(observed.mean_flat)
    term = observed.residual_whitened_rms_flat(zeros)
    cl = [ge(f"{name}_nonneg", term)]
    if L is G.BlockL:
        n = observed.mean_flat.shape[1]
        for j in range(observed.mean_flat.shape[0]):
            w = LA.solve_tril(observed.cholesky_flat[j], zeros[j] - observed.mean_flat[j])
            cl.append(eq(f"{name}_is_whitened_rms_dim{j}", term[j] * term[j] * n, jnp.sum(w * w)))
    else:
        sign = 1.0 if L is G.DenseL else -1.0
        w = LA.solve_tril(observed.cholesky_flat, sign * (zeros - observed.mean_flat))
        cl.append(eq(f"{name}_is_whitened_rms", term * term * observed.mean_flat.size, jnp.sum(w * w)))
    return term, cl


def smoother_clauses(cfg, res, state, sp):
    """Backward conditional of the step == RTS smoothing gain (fixed-interval) / merged (fixed-point)."""
    L = cfg.L
    G_, xi, Xi = law(L, res.solution_full.conditional)
    Gs, xis, Xis = sp["Phi"], None, None
    # RTS quantities, inverse-free: G P^- = P Phi^T ; xi = m - G m^- ; Xi = P - G P^- G^T
    back = sp["back"]
    Gb, xib, Xib = law(L, back)
    cl = [
        eq("rts_gain_equation", L.mm(Gb, sp["P_pred"]), L.mm(sp["P"], L.T(sp["Phi"]))),
        eq("rts_offset", xib, sp["m"] - L.mv(Gb, sp["m_pred"])),
        eq("rts_cov", Xib, sp["P"] - L.mm(L.mm(Gb, sp["P_pred"]), L.T(Gb))),
    ]
    if cfg.strategy == "fixedinterval":
        cl += [eq("backward_linop", G_, Gb), eq("backward_offset", xi, xib), eq("backward_cov", Xi, Xib)]
    else:
        A0, b0, Q0 = law(L, state.solution_full.conditional)
        cl += [
            eq("backward_linop_merged", G_, L.mm(A0, Gb)),
            eq("backward_offset_merged", xi, L.mv(A0, xib) + b0),
            eq("backward_cov_merged", Xi, L.mm(L.mm(A0, Xib), L.T(A0)) + Q0),
        ]
    return cl


def _frame(res, state, dt):
    cl = [eq("time", res.t, state.t + dt), eq("num_steps", res.num_steps, state.num_steps + 1)]
    fm = ivp.filtering_marginal(res)
    cl += [eq("u_is_filtering_marginal_mean", res.u.mean_flat, fm.mean_flat), eq("u_is_filtering_marginal_chol", res.u.cholesky_flat, fm.cholesky_flat)]
    for k, (a, b) in enumerate(zip(jax.tree_util.tree_leaves(res.prior), jax.tree_util.tree_leaves(state.prior))):
        cl.append(eq(f"prior_unchanged{k}", a, b))
    return cl


def step_contract(cfg: ivp.Cfg):
    L = cfg.L
    cls = {"none": "solver", "mle": "solver_mle", "dynamic": "solver_dynamic"}[cfg.calib]

    def ensures(res, self, state, *, dt, damp):
        cl = _frame(res, state, dt)
        ones = _ones_scale(cfg, state)
        if cfg.calib in ("none", "mle"):
            sp = ekf_spec(cfg, state, dt, damp, ones)
        else:
            # dynamic calibration: scale = whitened RMS of the residual of the mean-only prediction
            cond1 = state.prior.transition(dt=dt, output_scale=ones)
            u0 = cond1.apply_flat(state.u.mean_flat)
            H0, b0 = ivp.linearise_spec(cfg, ivp.lin_point(cfg, u0), state.t + dt)
            lin0 = ivp.lin_cond(cfg, H0, b0, damp)
            obs0 = lin0.marginalise(u0)
            Phi1, _, Q1 = law(L, cond1)
            S0 = L.mm(L.mm(H0, Q1), L.T(H0)) + ivp.damp_cov(cfg, H0, damp)
            sigma, cl_sigma = whitened_rms_spec(cfg, obs0, "dynamic_scale")
            cl += cl_sigma
            cl += [
                eq("dynamic_scale_residual", obs0.mean_flat, L.mv(H0, L.mv(Phi1, state.u.mean_flat) + L.beff(cond1)) + b0),
                eq("dynamic_scale_innovation_cov", cov(L, obs0), S0),
                eq("output_scale_is_dynamic_scale", res.output_scale, sigma),
            ]
            sp = ekf_spec(cfg, state, dt, damp, sigma, lin_at=None if cfg.relin else (H0, b0))
            _, _, Qs = law(L, sp["cond"])
            s2 = (sigma * sigma)[..., None, None]
            cl += [eq("process_noise_scaled", Qs, s2 * Q1)]
        cl += [
            eq("gain_equation", L.mm(sp["K"], sp["S"]), L.mm(sp["P_pred"], L.T(sp["H"]))),
            eq("posterior_mean", res.u.mean_flat, sp["m_post"]),
            eq("posterior_cov", cov(L, res.u), sp["P_post"]),
        ]
        Hc, bc, Rc = law(L, res.fun_evals)
        cl += [eq("cached_linearisation_H", Hc, sp["H"]), eq("cached_linearisation_b", bc, sp["b"]), eq("cached_linearisation_noise_is_damping", Rc, ivp.damp_cov(cfg, sp["H"], damp))]
        if cfg.strategy != "filter":
            cl += smoother_clauses(cfg, res, state, sp)
            back_leaves = jax.tree_util.tree_leaves(state.solution_full.conditional)
            for nm, val in (("mean", res.u.mean_flat), ("chol", res.u.cholesky_flat), ("time", res.t), ("cached_linearisation", law(L, res.fun_evals)[1])):
                cl.append(independent_of(f"filtering_{nm}_independent_of_backward_model", val, back_leaves))
        if cfg.calib == "none":
            cl += [eq("output_scale_one", res.output_scale, 1.0)]
        if cfg.calib == "mle":
            _, running, n = state.auxiliary
            _, running_new, n_new = res.auxiliary
            term, cl_term = whitened_rms_spec(cfg, sp["observed"], "mle_term")
            cl += cl_term
            cl += [
                eq("mle_innovation_mean", sp["observed"].mean_flat, sp["resid"]),
                eq("mle_innovation_cov", cov(L, sp["observed"]), sp["S"]),
                eq("mle_count", n_new, n + 1),
                ge("mle_running_nonneg", running_new),
                eq("mle_running_mean_of_squares", running_new * running_new * (n + 1), running * running * n + term * term),
                eq("output_scale_unchanged", res.output_scale, state.output_scale),
            ]
        return cl

    def instances(tier):
        out = []
        if getattr(cfg, "thorough_only", False) and tier != "thorough":
            return out

        def make(rng):
            solver, state = ivp.make_state(cfg, rng)
            state = ivp.tie_u(ivp.randomise(state, rng, positive=ivp.positive_leaves(state)))
            return (solver, state), {"dt": jnp.asarray(rng.uniform(0.1, 0.5)), "damp": jnp.asarray(rng.uniform(0.05, 0.2))}

        def positive(args, kwargs):
            return ivp.positive_leaves(args[1]) + [kwargs["dt"]]

        def nonneg(args, kwargs):
            return ivp.nonneg_leaves(args[1]) + [kwargs["damp"]]

        def names(args, kwargs):
            st = args[1]
            nm = {id(st.t): "t", id(st.u.mean_flat): "m", id(st.u.cholesky_flat): "L", id(kwargs["dt"]): "dt", id(kwargs["damp"]): "damp", id(st.num_steps): "nsteps"}
            pr = st.prior
            for k in ("A", "a", "Q", "q_sqrtm", "q0", "output_scale"):
                if hasattr(pr, k):
                    nm[id(getattr(pr, k))] = "prior." + k
            return nm

        out.append(Instance(cfg.name, make, positive=positive, nonneg=nonneg, names=names, symbolic_ints=lambda a, k: []))
        return out

    mod = "probdiffeq._probdiffeq.solvers"
    from . import normals as N

    callees = [G.BY_LAYOUT[cfg.layout]["marginalise"], G.BY_LAYOUT[cfg.layout]["revert"], G.BY_LAYOUT[cfg.layout]["merge"], N.BY_LAYOUT[cfg.layout]["residual_whitened_rms_flat"]]
    return Contract(
        name=f"{mod}:{cls}.step[{cfg.name}]", module=mod, qualname=f"{cls}.step",
        ensures=ensures, instances=instances, callees=callees,
        inherits=("revert#", "revert_conditional#", "solve_tril#", "residual_whitened_rms_flat#"),
        doc="one step == predict with the prior transition, linearise at the predicted mean, condition on zero data (textbook EKF)",
    )


# --------------------------------------------------------------------------------------
# solver.init (C02): the initial state, with and without the initial-constraint update
# --------------------------------------------------------------------------------------


def init_contract(cfg: ivp.Cfg, with_update: bool):
    """``solver*.init``: without ``constraint_init`` the state is the prior's initial random variable; with it, the
    initial random variable conditioned on the linearised constraint at t0 (textbook update with a gain that
    solves K S = P H^T in the least-squares sense; S non-singular is an inherited precondition)."""
    L = cfg.L
    cls = {"none": "solver", "mle": "solver_mle", "dynamic": "solver_dynamic"}[cfg.calib]

    def wrap(target):
        def f(self, t, prior, *, damp):
            return target(self, t, prior, damp=damp)

        return f

    def ensures(res, self, t, prior, *, damp):
        import probdiffeq.backend.linalg as LA

        rv0 = prior.init
        m0, P0 = rv0.mean_flat, cov(L, rv0)
        cl = [eq("time", res.t, t), eq("num_steps_zero", res.num_steps, 0), eq("output_scale_one", res.output_scale, 1.0)]
        for k, (a, b) in enumerate(zip(jax.tree_util.tree_leaves(res.prior), jax.tree_util.tree_leaves(prior))):
            cl.append(eq(f"prior_unchanged{k}", a, b))
        for k, leaf in enumerate(jax.tree_util.tree_leaves(res.fun_evals)):
            cl.append(eq(f"cached_linearisation_zero{k}", leaf, 0.0))
        fm = ivp.filtering_marginal(res)
        cl += [eq("u_is_filtering_marginal_mean", res.u.mean_flat, fm.mean_flat), eq("u_is_filtering_marginal_chol", res.u.cholesky_flat, fm.cholesky_flat)]
        if cfg.strategy != "filter":
            A, b, Q = law(L, res.solution_full.conditional)
            n = rv0.mean_flat.shape[-1] if L is G.BlockL else rv0.mean_flat.shape[0]
            eye = jnp.eye(n)
            if L is G.BlockL:
                eye = jnp.broadcast_to(eye, A.shape)
            cl += [eq("backward_model_identity_linop", A, eye), eq("backward_model_identity_offset", b, 0.0), eq("backward_model_identity_cov", Q, 0.0)]
        if not with_update:
            cl += [eq("mean_is_prior_initial_mean", res.u.mean_flat, m0), eq("cov_is_prior_initial_cov", cov(L, res.u), P0)]
            if cfg.calib == "mle":
                _, running, n_data = res.auxiliary
                cl += [eq("mle_running_zero", running, 0.0), eq("mle_count_zero", n_data, 0.0)]
            return cl
        H, b = ivp.linearise_spec(cfg, m0, t)
        S = L.mm(L.mm(H, P0), L.T(H)) + ivp.damp_cov(cfg, H, damp)
        lin = ivp.lin_cond(cfg, H, b, damp)
        observed, bwd = lin.revert(rv0, solve_triu=LA.lstsq_svd)  # memoised contract call: ghost gain
        K, _, _ = law(L, bwd)
        resid = L.mv(H, m0) + b
        cl += [
            eq("gain_equation", L.mm(K, S), L.mm(P0, L.T(H))),
            eq("posterior_mean", res.u.mean_flat, m0 - L.mv(K, resid)),
            eq("posterior_cov", cov(L, res.u), P0 - L.mm(L.mm(K, S), L.T(K))),
        ]
        if cfg.calib == "mle":
            _, running, n_data = res.auxiliary
            term, cl_term = whitened_rms_spec(cfg, observed, "mle_init_term")
            cl += cl_term
            cl += [eq("mle_innovation_mean", observed.mean_flat, resid), eq("mle_innovation_cov", cov(L, observed), S),
                   eq("mle_running_is_initial_whitened_rms", running, term), eq("mle_count_one", n_data, 1.0)]
        return cl

    def instances(tier):
        def make(rng):
            ssm, ode, constraint, strategy, solver = ivp.make_solver(cfg, constraint_init=with_update)
            tcoeffs = [jnp.asarray(rng.normal(size=(cfg.d,))) for _ in range(cfg.q + 1)]
            prior = ssm.prior_wiener_integrated(tcoeffs, is_exact=False)
            prior = ivp.randomise(prior, rng, positive=[prior.output_scale])
            return (solver, jnp.asarray(0.3), prior), {"damp": jnp.asarray(rng.uniform(0.05, 0.2))}

        def positive(args, kwargs):
            return [args[2].output_scale]

        def nonneg(args, kwargs):
            return [kwargs["damp"]]

        def names(args, kwargs):
            pr = args[2]
            return {id(args[1]): "t", id(pr.init.mean_flat): "m0", id(pr.init.cholesky_flat): "L0", id(kwargs["damp"]): "damp"}

        return [Instance(cfg.name + (",constraint_init" if with_update else ""), make, positive=positive, nonneg=nonneg, names=names)]

    mod = "probdiffeq._probdiffeq.solvers"
    from . import normals as N

    callees = [G.BY_LAYOUT[cfg.layout]["revert"], N.BY_LAYOUT[cfg.layout]["residual_whitened_rms_flat"]]
    return Contract(
        name=f"{mod}:{cls}.init[{cfg.name}{',constraint_init' if with_update else ''}]", module=mod, qualname=f"{cls}.init",
        ensures=ensures, instances=instances, callees=callees, wrap=wrap,
        inherits=("revert#", "revert_conditional#", "solve_tril#", "residual_whitened_rms_flat#", "ghost_inverse#"),
        doc="initial state == prior initial rv (no constraint_init) or its exact Gaussian conditioning on the linearised initial constraint (gain by least squares; innovation covariance assumed non-singular)",
    )
