"""Contracts for Taylor-coefficient initialisation (C10): generic polynomial vector fields with
symbolic coefficients; the oracle is the total-derivative recursion  F_{j+1} = d/dt F_j  along the
flow, written with nested jax.jvp (independent of jax.experimental.jet and of the routines)."""

import itertools

import jax
import jax.numpy as jnp
import numpy as np

from vcgen.harness import Contract, Instance, eq, holds

MOD = "probdiffeq._probdiffeq.jet_expansion_algorithms"


def monomials(nvars, degree):
    out = []
    for total in range(degree + 1):
        for combo in itertools.combinations_with_replacement(range(nvars), total):
            e = [0] * nvars
            for c in combo:
                e[c] += 1
            out.append(tuple(e))
    return out


def poly_field(m, D, order):
    """f(x_0..x_{order-1}, t; coef): each output component is a generic polynomial of total degree <= D
    in the m*order state variables and t; ``coef`` has shape (m, #monomials)."""
    nv = m * order + 1
    monos = monomials(nv, D)

    def f(*args, coef):
        *xs, t = args
        z = jnp.concatenate([jnp.reshape(x, (-1,)) for x in xs] + [jnp.reshape(t, (1,))])
        vals = []
        for e in monos:
            v = jnp.ones(())
            for i, p in enumerate(e):
                if p:
                    v = v * z[i] ** p
            vals.append(v)
        return coef @ jnp.stack(vals)

    return f, len(monos)


def oracle(f, inits, t, num):
    """u^(k), ..., via F_{j+1}(x, t) = dF_j/dx . xdot + dF_j/dt with xdot = (x_1, ..., x_{k-1}, f)."""
    k = len(inits)

    def xdot(xs, tt):
        return (*xs[1:], f(*xs, tt))

    F = lambda xs, tt: f(*xs, tt)
    out = [*inits, F(tuple(inits), t)]
    for _ in range(num - 1):
        def Fn(xs, tt, F=F):
            return jax.jvp(lambda a, b: F(a, b), (xs, tt), (xdot(xs, tt), jnp.ones_like(tt)))[1]
        F = Fn
        out.append(F(tuple(inits), t))
    return out


ROUTINES = {
    "unroll": lambda num: ("jetexpand_ode_unroll", dict(num=num)),
    "padded_scan": lambda num: ("jetexpand_ode_padded_scan", dict(num=num)),
    "via_jvp": lambda num: ("jetexpand_ode_via_jvp", dict(num=num)),
}


def routine_contract(routine, pytree=False):
    qual = ROUTINES[routine](1)[0]

    def wrap(target):
        def f(coef, inits, t, *, m, D, order, num):
            import probdiffeq.probdiffeq as pd

            field, _ = poly_field(m, D, order)
            if pytree:
                un = lambda x: x["a"] if m == 1 else jnp.concatenate([jnp.reshape(x["a"], (-1,)), x["b"]])
                pk = lambda v: {"a": v} if m == 1 else {"a": v[:1], "b": v[1:]}
                g = lambda *a, t: pk(field(*[un(x) for x in a], t, coef=coef))
                ins = [pk(x) for x in inits]
            else:
                g = lambda *a, t: field(*a, t, coef=coef)
                ins = list(inits)
            vf = pd.ode(g) if order == 1 else pd.ode_order_two(g)
            tcoeffs, _ = target(num=num)(vf, ins, t=t)
            if pytree:
                tcoeffs = [un(x) for x in tcoeffs]
            return tcoeffs

        return f

    def ensures(res, coef, inits, t, *, m, D, order, num):
        field, _ = poly_field(m, D, order)
        exp = oracle(lambda *a: field(*a, coef=coef), list(inits), t, num)
        cl = [holds("number_of_coefficients", jnp.asarray(len(res) == order + num))]
        for j, (a, b) in enumerate(zip(res, exp)):
            cl.append(eq(f"derivative_{j}", a, b))
        return cl

    def instances(tier):
        fam = [(1, 2, 1, 3), (2, 2, 1, 2), (1, 3, 1, 3), (1, 2, 2, 2)]
        if tier == "thorough":
            fam += [(1, 3, 1, 5), (2, 2, 1, 4), (3, 2, 1, 3), (3, 1, 1, 6), (2, 2, 2, 3), (1, 3, 2, 3), (1, 2, 1, 1), (1, 2, 1, 0)]
        if pytree:
            fam = [(1, 2, 1, 2), (2, 2, 1, 2), (2, 2, 2, 2)]
        out = []
        for m, D, order, num in fam:
            def make(rng, m=m, D=D, order=order, num=num):
                _, nm = poly_field(m, D, order)
                return (jnp.asarray(rng.normal(size=(m, nm))), tuple(jnp.asarray(rng.normal(size=(m,))) for _ in range(order)), jnp.asarray(rng.normal())), {"m": m, "D": D, "order": order, "num": num}
            out.append(Instance(f"m={m},D={D},order={order},num={num}" + (",pytree" if pytree else ""), make, names=lambda a, k: {id(a[0]): "c", id(a[2]): "t0", **{id(x): f"u{i}" for i, x in enumerate(a[1])}}))
        return out

    return Contract(name=f"{MOD}:{qual}" + ("[pytree]" if pytree else ""), module=MOD, qualname=qual, wrap=wrap, ensures=ensures, instances=instances,
                    doc="returns u, u', ..., u^(k-1+num) of the exact solution for every polynomial field of the instance's degree/dimension (explicit time dependence included)")


def doubling_contract():
    def wrap(target):
        def f(coef, inits, t, *, m, D, order, num):
            import probdiffeq.probdiffeq as pd

            field, _ = poly_field(m, D, 1)
            vf = pd.ode(lambda a, *, t: field(a, t, coef=coef))
            tcoeffs, _ = target(num_doublings=num)(vf, list(inits), t=t)
            return tcoeffs

        return f

    def ensures(res, coef, inits, t, *, m, D, order, num):
        field, _ = poly_field(m, D, 1)
        n_out = 2 ** (num + 1) - 1
        exp = oracle(lambda *a: field(*a, coef=coef), list(inits), t, n_out - 1)
        cl = [holds("number_of_coefficients", jnp.asarray(len(res) == n_out))]
        for j, (a, b) in enumerate(zip(res, exp)):
            cl.append(eq(f"derivative_{j}", a, b))
        return cl

    def instances(tier):
        fam = [(1, 2, 1, 1), (1, 2, 1, 2), (2, 2, 1, 1)] + ([(2, 2, 1, 2), (1, 3, 1, 2)] if tier == "thorough" else [])
        out = []
        for m, D, order, num in fam:
            def make(rng, m=m, D=D, order=order, num=num):
                _, nm = poly_field(m, D, 1)
                return (jnp.asarray(rng.normal(size=(m, nm))), (jnp.asarray(rng.normal(size=(m,))),), jnp.asarray(rng.normal())), {"m": m, "D": D, "order": 1, "num": num}
            out.append(Instance(f"m={m},D={D},doublings={num}", make, names=lambda a, k: {id(a[0]): "c", id(a[2]): "t0", id(a[1][0]): "u0"}))
        return out

    return Contract(name=f"{MOD}:jetexpand_ode_doubling_unroll", module=MOD, qualname="jetexpand_ode_doubling_unroll", wrap=wrap, ensures=ensures, instances=instances,
                    doc="Newton doubling returns the same exact derivatives (first-order ODEs)")


_RUF = {}


def residual_uf(m, nargs):
    from vcgen import prims

    if (m, nargs) not in _RUF:
        def native(*args):
            *cs, t = args
            out = cs[-1] * 1.0
            for i, c in enumerate(cs[:-1]):
                out = out - jnp.sin(c * (0.4 + 0.1 * i)) * (1.0 + 0.2 * t)
            return out
        _RUF[(m, nargs)] = prims.make_uf(f"res_m{m}_k{nargs}", [(m,)] * nargs, (m,), native=native)
    return _RUF[(m, nargs)]


def residual_routine_contract():
    """``jetexpand_residual``: what the routine hands to the constrained least-squares solver, and what it does with
    the answer.  The solver is an abstract object obeying the contract proved for the real Gauss-Newton routine in
    C19 (returned point = mean + L L^T w for some w): the ghost multiplier ``w`` is an arbitrary input, so the
    clauses hold for every point such a solver can return."""

    def wrap(target):
        def f(inits, t, w, probe, *, m, num, nargs):
            import probdiffeq.probdiffeq as pd
            from probdiffeq._probdiffeq import problems

            r = residual_uf(m, nargs)
            residual = problems.JetResidual(lambda *, jet_coords, t: [r(*jet_coords, t)], jacobian=pd.jacobian_materialize(), num_tcoeffs_in_args=nargs)
            seen = {}

            class AbstractLstSq:
                def __call__(self, fun, x0, mean, cholesky, **kw):
                    assert not kw
                    seen.update(x0=x0, mean=mean, cholesky=cholesky, at_probe=fun(probe))
                    return mean + cholesky @ (cholesky.T @ w), {"iters": 0}

            tcoeffs, _ = target(num, nlstsq=AbstractLstSq())(residual, list(inits), t=t)
            return list(tcoeffs), seen["x0"], seen["mean"], seen["cholesky"], seen["at_probe"]

        return f

    def ensures(res, inits, t, w, probe, *, m, num, nargs):
        tcoeffs, x0, mean, chol, at_probe = res
        k = len(inits)
        r = residual_uf(m, nargs)
        given = jnp.concatenate([jnp.reshape(x, (-1,)) for x in inits])
        n_given = k * m
        cl = [holds("number_of_coefficients", jnp.asarray(len(tcoeffs) == k + num))]
        for j in range(k):
            cl.append(eq(f"given_coefficient_{j}_returned_unchanged", tcoeffs[j], inits[j]))
        cl += [
            eq("start_point_given_part", x0[:n_given], given), eq("start_point_free_part_zero", x0[n_given:], 0.0),
            eq("prior_mean_is_start_point", mean, x0),
            eq("given_coefficients_are_not_degrees_of_freedom", chol[:n_given, :], 0.0),
            eq("free_block_is_diagonal", chol[n_given:, :] * (1.0 - jnp.eye(chol.shape[0])[n_given:, :]), 0.0),
            holds("every_added_coefficient_is_a_degree_of_freedom", jnp.all(jnp.diagonal(chol)[n_given:] > 0)),
        ]
        # the returned coefficients are exactly the solver's answer (here: mean + L L^T w), unravelled coefficient by coefficient
        answer = mean + chol @ (chol.T @ w)
        for j in range(k + num):
            cl.append(eq(f"returned_coefficient_{j}_is_the_solver_answer", tcoeffs[j], answer[j * m : (j + 1) * m]))
        coords = [probe[i * m : (i + 1) * m] for i in range(nargs)]
        cl.append(eq("objective_is_the_residual_of_the_leading_coefficients_at_t", at_probe, r(*coords, t)))
        return cl

    def instances(tier):
        fam = [(1, 1, 2, 3), (2, 1, 1, 2), (1, 2, 1, 3)]  # (m, number of given coefficients, num, nargs)
        if tier == "thorough":
            fam += [(2, 1, 3, 4), (1, 1, 3, 2), (2, 2, 2, 4)]
        out = []
        for m, k, num, nargs in fam:
            def make(rng, m=m, k=k, num=num, nargs=nargs):
                D = (k + num) * m
                return (tuple(jnp.asarray(rng.normal(size=(m,))) for _ in range(k)), jnp.asarray(rng.normal()), jnp.asarray(rng.normal(size=(D,))), jnp.asarray(rng.normal(size=(D,)))), {"m": m, "num": num, "nargs": nargs}
            out.append(Instance(f"m={m},given={k},num={num},nargs={nargs}", make, names=lambda a, kw: {id(a[1]): "t0", id(a[2]): "w", id(a[3]): "y", **{id(x): f"u{i}" for i, x in enumerate(a[0])}}))
        return out

    from contracts import gauss_newton  # the solver contract assumed above has its home proofs there (C19)

    return Contract(name=f"{MOD}:jetexpand_residual", module=MOD, qualname="jetexpand_residual", wrap=wrap, ensures=ensures, instances=instances, premises=gauss_newton.contracts(),
                    doc="given coefficients are returned unchanged and are not degrees of freedom; every added coefficient is one; the objective handed to the least-squares solver is the residual of the leading coefficients at the requested time; start point and prior mean are (inits, 0)")


def contracts():
    out = [residual_routine_contract()] + [routine_contract(r) for r in ROUTINES] + [routine_contract("unroll", pytree=True), routine_contract("via_jvp", pytree=True), routine_contract("padded_scan", pytree=True), doubling_contract()]
    return out
