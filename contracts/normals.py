"""Contracts for the Normal classes of the three factorisations (C08, C04, C12, C13).

Specs are the multivariate-normal definitions written against cov := chol chol^T.
"""

import jax
import jax.flatten_util
import jax.numpy as jnp
import numpy as np

from vcgen.harness import Contract, Instance, define, eq, ge, holds

from .gaussians import LAYOUTS, BlockL, DenseL, IsoL, cov, law, _names, _scalings, scaling_shape_clauses


def _fam(tier, L):
    fam = [(1, 1), (2, 1), (2, 2), (3, 2)]
    if tier == "thorough":
        fam += [(3, 1), (3, 2), (4, 1)]
    return fam


def _stack_std(L, result):
    """std pytree [M_1..M_n] -> array in the layout of the diagonal of cov."""
    leaves = [jax.flatten_util.ravel_pytree(x)[0] if L is not IsoL else jnp.asarray(x) for x in result]  # coefficients may be pytrees
    if L is DenseL:
        return jnp.concatenate([x.reshape(-1) for x in leaves])  # coefficient-major
    if L is IsoL:
        return jnp.stack(leaves)  # (n,)
    return jnp.stack(leaves).T  # (d, n)


def _diag_cov(L, rv):
    c = cov(L, rv)
    return jnp.diagonal(c, axis1=-2, axis2=-1)


def make_contracts(L):
    C = {}
    pre = f"{L.module}:{L.normal}"

    def rv_inst(extra=None, fam=None):
        def f(tier):
            out = []
            for n, d in (fam(tier) if fam else _fam(tier, L)):
                def make(rng, n=n, d=d):
                    rv = L.normal_obj(rng, n, d)
                    a, k = extra(rng, rv, n, d) if extra else ((), {})
                    return (rv, *a), k
                out.append(Instance(f"n={n},d={d}", make, names=_names))
            return out

        return f

    # ---- std -------------------------------------------------------------------------------
    def std_ens(res, rv):
        s = _stack_std(L, res)
        return [ge("nonneg", s), eq("squares", s * s, _diag_cov(L, rv))]

    C["std"] = Contract(
        name=f"{pre}.std", module=L.module, qualname=f"{L.normal}._std_batched",
        ensures=std_ens, instances=rv_inst(),
        doc="std >= 0 and std^2 = diag(cov), returned in the caller's pytree structure",
    )

    # ---- rescale_cholesky ----------------------------------------------------------------------
    def resc_ens(res, rv, factor):
        f2 = (factor * factor)[..., None, None]
        return [eq("mean", res.mean_flat, rv.mean_flat), eq("cov", cov(L, res), f2 * cov(L, rv))]

    def resc_extra(rng, rv, n, d):
        shape = (d,) if L is BlockL else ()
        return (jnp.asarray(rng.uniform(0.5, 2.0, size=shape)),), {}

    def resc_instances(tier):
        out = rv_inst(resc_extra)(tier)
        # stacked Gaussians with one factor per stacked element (and per dimension for block-diag); the stack length is
        # chosen both equal to and different from the state dimension (broadcasting slips hide when they coincide)
        for T, n, d in [(2, 2, 1), (3, 2, 1)] + ([(4, 2, 2)] if tier == "thorough" else []):
            def make(rng, T=T, n=n, d=d):
                rvs = [L.normal_obj(rng, n, d) for _ in range(T)]
                rv = type(rvs[0])(jnp.stack([r.mean_flat for r in rvs]), jnp.stack([r.cholesky_flat for r in rvs]), rvs[0].tree_flatten)
                shape = (T, d) if L is BlockL else (T,)
                return (rv, jnp.asarray(rng.uniform(0.5, 2.0, size=shape))), {}
            out.append(Instance(f"stacked,T={T},n={n},d={d}", make, names=_names))
        return out

    C["rescale_cholesky"] = Contract(
        name=f"{pre}.rescale_cholesky", module=L.module, qualname=f"{L.normal}.rescale_cholesky",
        ensures=resc_ens, instances=resc_instances,
        doc="same mean, cov scaled by factor^2 (per dimension for block-diag)",
    )

    # ---- residual_whitened_rms_flat ---------------------------------------------------------------
    def rms_ens(res, rv, u):
        import probdiffeq.backend.linalg as LA

        if L is DenseL:
            w = LA.solve_tril(rv.cholesky_flat, u - rv.mean_flat)
            return [ge("nonneg", res), eq("rms", res * res * rv.mean_flat.size, jnp.sum(w * w))]
        if L is IsoL:
            w = LA.solve_tril(rv.cholesky_flat, rv.mean_flat - u)
            return [ge("nonneg", res), eq("rms", res * res * rv.mean_flat.size, jnp.sum(w * w))]
        cl = []
        n = rv.mean_flat.shape[1]
        for j in range(rv.mean_flat.shape[0]):
            w = LA.solve_tril(rv.cholesky_flat[j], u[j] - rv.mean_flat[j])
            cl.append(eq(f"rms_dim{j}", res[j] * res[j] * n, jnp.sum(w * w)))
        return [ge("nonneg", res)] + cl

    def rms_extra(rng, rv, n, d):
        return (L.point(rng, n, d),), {}

    def tril_inst(tier):
        out = []
        for n, d in _fam(tier, L):
            def make(rng, n=n, d=d):
                rv = L.normal_obj(rng, n, d)
                ch = jnp.tril(rv.cholesky_flat)
                rv = type(rv)(rv.mean_flat, ch, rv.tree_flatten)
                return (rv, L.point(rng, n, d)), {}
            out.append(Instance(f"n={n},d={d}", make, names=_names))
        return out

    C["residual_whitened_rms_flat"] = Contract(
        name=f"{pre}.residual_whitened_rms_flat", module=L.module,
        qualname=f"{L.normal}.residual_whitened_rms_flat",
        ensures=rms_ens, instances=tril_inst, inherits=("solve_tril#",),
        doc="rms >= 0 and rms^2 * size = |w|^2 with tril(chol) w = u - mean (per dimension for block-diag)",
    )

    # ---- to_multivariate_normal -----------------------------------------------------------------
    def mvn_ens(res, rv):
        mean, cov_full = res
        c = cov(L, rv)
        if L is DenseL:
            return [eq("mean", mean, rv.mean_flat), eq("cov", cov_full, c)]
        if L is IsoL:
            n, d = rv.mean_flat.shape
            return [eq("mean", mean, rv.mean_flat.reshape(-1)), eq("cov", cov_full, jnp.kron(c, jnp.eye(d)))]
        d, n = rv.mean_flat.shape
        full = sum(jnp.kron(c[j], jnp.outer(jnp.eye(d)[j], jnp.eye(d)[j])) for j in range(d))
        return [eq("mean", mean, rv.mean_flat.T.reshape(-1)), eq("cov", cov_full, full)]

    C["to_multivariate_normal"] = Contract(
        name=f"{pre}.to_multivariate_normal", module=L.module, qualname=f"{L.normal}.to_multivariate_normal",
        ensures=mvn_ens, instances=rv_inst(),
        doc="dense embedding: cov (x) I_d (isotropic), block-diagonal over d (block-diag), coefficient-major layout",
    )

    # ---- identity_conditional ----------------------------------------------------------------------
    def ident_ens(res, rv):
        A, b, Q = law(L, res)
        n = rv.mean_flat.shape[-1] if L is BlockL else rv.mean_flat.shape[0]
        eye = jnp.eye(n)
        if L is BlockL:
            eye = jnp.broadcast_to(eye, A.shape)
        return [eq("linop", A, eye), eq("offset", b, 0.0), eq("cov", Q, 0.0),
                eq("unit_to_latent", res.to_latent, 1.0), eq("unit_to_observed", res.to_observed, 1.0)] + scaling_shape_clauses(res)

    C["identity_conditional"] = Contract(
        name=f"{pre}.identity_conditional", module=L.module, qualname=f"{L.normal}.identity_conditional",
        ensures=ident_ens, instances=rv_inst(),
        doc="x -> x exactly: A = I, zero offset, zero noise, unit scalings",
    )

    # ---- to_derivative -------------------------------------------------------------------------------
    def deriv_wrap(target):
        def f(rv, std, *, i):
            return target(rv, i, std)

        return f

    def deriv_ens(res, rv, std, *, i):
        A, b, Q = law(L, res)
        if L is DenseL:
            N = rv.mean_flat.shape[0]
            d = std.shape[0]
            E = jnp.zeros((d, N)).at[jnp.arange(d), i * d + jnp.arange(d)].set(1.0)
            Qs = jnp.diag(std * std)
        elif L is IsoL:
            n = rv.mean_flat.shape[0]
            E = jnp.zeros((1, n)).at[0, i].set(1.0)
            Qs = (std * std).reshape(1, 1)
        else:
            d, n = rv.mean_flat.shape
            E = jnp.zeros((d, 1, n)).at[:, 0, i].set(1.0)
            Qs = (std * std).reshape(d, 1, 1)
        return [eq("selector", A, E), eq("offset", b, 0.0), eq("noise_cov", Q, Qs),
                eq("unit_to_latent", res.to_latent, 1.0), eq("unit_to_observed", res.to_observed, 1.0)] + scaling_shape_clauses(res)

    def deriv_inst(tier):
        out = []
        for n, d in _fam(tier, L):
            for i in range(n):
                def make(rng, n=n, d=d, i=i):
                    rv = L.normal_obj(rng, n, d)
                    std = jnp.asarray(rng.uniform(0.5, 2.0, size=() if L is IsoL else (d,)))
                    return (rv, std), {"i": i}
                out.append(Instance(f"n={n},d={d},i={i}", make, names=_names))
        return out

    C["to_derivative"] = Contract(
        name=f"{pre}.to_derivative", module=L.module, qualname=f"{L.normal}.to_derivative",
        ensures=deriv_ens, instances=deriv_inst, wrap=deriv_wrap,
        doc="observation model y = E_i x + N(0, diag(std^2)) with unit scalings",
    )
    return C


BY_LAYOUT = {L.tag: make_contracts(L) for L in LAYOUTS}


# --------------------------------------------------------------------------------------
# logpdf (C12): multivariate-normal log-density through a triangular factor of the covariance
# --------------------------------------------------------------------------------------


def logpdf_spec(L, rv, u_flat):
    """(value, clauses): log N(u; mean, cov) written with ghost quantities: a lower-triangular C with
    C C^T = cov (the kernel's factor, memoised), w with C w = u - mean, and
        log p = -1/2 |w|^2 - n/2 log(2 pi) - sum_i log|C_ii|.
    For any such C: |w|^2 = (u-m)^T cov^{-1} (u-m) and 2 sum log|C_ii| = log det cov (lemma, stated)."""
    import probdiffeq.backend.linalg as LA

    cl = []

    def one(chol, mean, u, tag):
        C = LA.qr_r(chol.T).T
        n = C.shape[0]
        mask = jnp.triu(jnp.ones((n, n)), k=1)
        # the ghost w is the kernel's solution of C w = u - mean (same kernel call form as the implementation,
        # so that the memoised symbols coincide; its meaning is pinned down by the 'whitened_residual' clause)
        w = LA.solve_tril(C, u - mean) if L is DenseL else LA.solve_triu(C.T, u - mean, trans="T")
        cl.extend([eq(f"factor_lower_triangular{tag}", C * mask, 0.0), eq(f"factor_gram_is_cov{tag}", C @ C.T, chol @ chol.T), eq(f"whitened_residual{tag}", C @ w, u - mean)])
        return -0.5 * jnp.sum(w * w) - n / 2 * jnp.log(jnp.pi * 2) - jnp.sum(jnp.log(jnp.abs(jnp.diagonal(C))))

    if L is DenseL:
        val = one(rv.cholesky_flat, rv.mean_flat, u_flat, "")
    elif L is IsoL:
        val = sum(one(rv.cholesky_flat, rv.mean_flat[:, j], u_flat[:, j], f"_dim{j}") for j in range(rv.mean_flat.shape[1]))
    else:
        val = sum(one(rv.cholesky_flat[j], rv.mean_flat[j], u_flat[j], f"_dim{j}") for j in range(rv.mean_flat.shape[0]))
    return val, cl


def make_logpdf_contract(L):
    pre = f"{L.module}:{L.normal}"

    def ensures(res, rv, u):
        val, cl = logpdf_spec(L, rv, u)
        return cl + [eq("log_density", res, val)]

    def instances(tier):
        out = []
        for n, d in _fam(tier, L)[:3]:
            out.append(Instance(f"n={n},d={d}", lambda rng, n=n, d=d: ((L.normal_obj(rng, n, d), L.point(rng, n, d)), {}), names=_names))
        return out

    return Contract(name=f"{pre}.logpdf_flat", module=L.module, qualname=f"{L.normal}.logpdf_flat", ensures=ensures, instances=instances,
                    inherits=("solve_tril#", "solve_triu#"),
                    doc="Gaussian log-density via a triangular factor of the covariance (sum over independent dimensions for isotropic / block-diag)")


for _L in LAYOUTS:
    BY_LAYOUT[_L.tag]["logpdf_flat"] = make_logpdf_contract(_L)
