"""Contracts for output-scale calibration at the end of a solve (C04): userfriendly_output of the three
solvers and strategy_filter.finalize.  (The per-step parts -- running quasi-MLE mean, dynamic scale --
are clauses of the step contracts in contracts/solvers.py.)"""

import dataclasses

import jax
import jax.numpy as jnp
import numpy as np

from vcgen.harness import Contract, Instance, eq, ge, gt, holds

from . import gaussians as G
from . import ivp
from .gaussians import BlockL, cov, law

MOD = "probdiffeq._probdiffeq.solvers"


def _index(tree, k):
    return jax.tree_util.tree_map(lambda a: a[k], tree)


def _stack(states):
    return jax.tree_util.tree_map(lambda *xs: jnp.stack(xs), *states)


def output_contract(cfg: ivp.Cfg, correct=True, N=2):
    L = cfg.L
    cls = {"none": "solver", "mle": "solver_mle", "dynamic": "solver_dynamic"}[cfg.calib]

    def build(rng):
        import probdiffeq.probdiffeq as pd

        ssm, ode, constraint, strategy, solver = ivp.make_solver(cfg)
        if cfg.calib == "mle":
            solver = pd.solver_mle(constraint=constraint, strategy=strategy, correct_asymptotic_underconfidence=correct)
        _, base = ivp.make_state(cfg, rng, solver=solver, ssm=ssm)
        states = [ivp.tie_u(ivp.randomise(base, rng, positive=ivp.positive_leaves(base))) for _ in range(N + 2)]
        s0, s1 = states[0], states[-1]
        mid = [dataclasses.replace(s, num_steps=jnp.asarray(float(k + 1))) for k, s in enumerate(states[1:-1])]
        return solver, s0, _stack(mid), s1

    def ensures(res, self, *, solution0, solution, solution1):
        cl = [eq("times", res.t, jnp.concatenate([solution0.t[None], solution.t]))]
        ones = jnp.ones_like(solution0.u.prototype_output_scale_calibrated())
        if cfg.calib == "mle":
            _, running, _ = solution1.auxiliary
            nsteps = solution.num_steps[-1]
            scale = res.output_scale[0]
            if correct:
                cl += [eq("scale_is_quasi_MLE_with_1/sqrt(N)_correction", scale * scale * nsteps, running * running)]
            else:
                cl += [eq("scale_is_quasi_MLE", scale, running)]
            cl += [ge("scale_nonneg", scale)]
            for k in range(N):
                cl.append(eq(f"reported_scale_constant_t{k}", res.output_scale[k], scale))
        elif cfg.calib == "dynamic":
            scale = ones
            cl += [eq("reported_scale_t0", res.output_scale[0], solution0.output_scale)]
            for k in range(N):
                cl.append(eq(f"reported_scale_is_local_estimate_t{k+1}", res.output_scale[k + 1], solution.output_scale[k]))
        else:
            scale = ones
            cl += [eq("reported_scale_one", res.output_scale, 1.0)]
        s2 = (scale * scale)[..., None, None]
        if cfg.strategy == "filter":
            cl += [eq("mean_t0", res.u.mean_flat[0], solution0.u.mean_flat), eq("cov_t0_is_scale^2_times_unit_cov", cov(L, _index(res.u, 0)), s2 * cov(L, solution0.solution_full))]
            for k in range(N):
                cl += [eq(f"mean_t{k+1}", res.u.mean_flat[k + 1], solution.solution_full.mean_flat[k]),
                       eq(f"cov_t{k+1}_is_scale^2_times_unit_cov", cov(L, _index(res.u, k + 1)), s2 * cov(L, _index(solution.solution_full, k)))]
            # the posterior returned next to the marginals (used for off-grid marginals) is the same calibrated object
            cl += [eq("posterior_mean_is_reported_mean", res.solution_full.mean_flat, res.u.mean_flat), eq("posterior_chol_is_reported_chol", res.solution_full.cholesky_flat, res.u.cholesky_flat)]
        # bookkeeping reported per saved step (the repository reports these for the saved steps only, without t0)
        cl += [eq("reported_step_counts", res.num_steps, solution.num_steps)]
        for nm, a, b in (("auxiliary", res.auxiliary, solution.auxiliary), ("fun_evals", res.fun_evals, solution.fun_evals), ("prior", res.prior, solution.prior)):
            for k, (x, y) in enumerate(zip(jax.tree_util.tree_leaves(a), jax.tree_util.tree_leaves(b))):
                cl.append(eq(f"reported_{nm}_passed_through{k}", x, y))
        return cl

    def instances(tier):
        def make(rng):
            solver, s0, mid, s1 = build(rng)
            return (solver,), {"solution0": s0, "solution": mid, "solution1": s1}

        def positive(args, kwargs):
            out = []
            for s in (kwargs["solution0"], kwargs["solution"], kwargs["solution1"]):
                out += ivp.positive_leaves(s)
            return out + [kwargs["solution"].num_steps]

        def nonneg(args, kwargs):
            return ivp.nonneg_leaves(kwargs["solution1"])

        return [Instance(cfg.name + (",corrected" if correct else ",uncorrected"), make, positive=positive, nonneg=nonneg, symbolic_ints=lambda a, k: [])]

    return Contract(name=f"{MOD}:{cls}.userfriendly_output[{cfg.name},{'corrected' if correct else 'uncorrected'}]", module=MOD, qualname=f"{cls}.userfriendly_output",
                    ensures=ensures, instances=instances,
                    doc="reported scale = documented estimator; returned covariances = unit-scale covariances times scale^2 (per dimension for block-diag)")


def contracts():
    out = []
    for layout in ("dense", "isotropic", "blockdiag"):
        out.append(output_contract(ivp.Cfg(layout, "mle", "filter", "ts0", q=1, d=2), correct=True))
        out.append(output_contract(ivp.Cfg(layout, "mle", "filter", "ts0", q=1, d=1), correct=False))
        out.append(output_contract(ivp.Cfg(layout, "dynamic", "filter", "ts0", q=1, d=2)))
        out.append(output_contract(ivp.Cfg(layout, "none", "filter", "ts0", q=1, d=2)))
    return out
