"""Order conditions of the Pade / Legendre initialisers of exp_gram_cholesky (C09), decided exactly.

The real ``init`` of each table is traced with a symbolic 1x1 drift A = [[a]] and B = [[1]]; the two
``solve`` kernel calls expose the polynomials the code actually forms:  D(a) = V - U,  N(a) = V + U and the
right-hand sides N_i(a)/sqrt(2i+1).  These are checked against conditions that do not use the tables:
    N(a) - D(a) e^a = O(a^(2q+1))                                           ([q/q] Pade approximant of exp)
    D(a) (2i+1) int_0^1 e^{sa} P_i(2s-1) ds - N_i(a) = O(a^(2q-i)),  i < q   (Legendre moments; O(a^(q+2)) for i = q)
as exact rational power-series identities (P_i = Legendre polynomials).  The matrix case follows because the
code forms the same polynomials in the matrix A (checked structurally by the 1x1 instance only: stated).
"""

import math
from fractions import Fraction as F

import jax
import jax.numpy as jnp
import numpy as np

TABLES = ["pade_and_legendre_3", "pade_and_legendre_5", "pade_and_legendre_7", "pade_and_legendre_9", "pade_and_legendre_13"]


def _legendre_shifted(i):
    return [F((-1) ** (i + j) * math.comb(i, j) * math.comb(i + j, j)) for j in range(i + 1)]


def _t_series(i, K):
    L = _legendre_shifted(i)
    return [F(1, math.factorial(k)) * sum(L[j] * F(1, k + j + 1) for j in range(i + 1)) for k in range(K)]


def _mul(p, s, K):
    out = [F(0)] * K
    for e, c in p.items():
        for k, v in enumerate(s):
            if e + k < K:
                out[e + k] += c * v
    return out


def check_table(table):
    import probdiffeq.backend.linalg as LA
    from probdiffeq.util import gram_util
    from vcgen import interp, prims
    from vcgen import poly as P

    P.reset()
    prims.reset()
    pl = getattr(gram_util, table)()
    q = pl.q
    with prims.symbolic_mode():
        closed = jax.make_jaxpr(lambda A, B: pl.init(A, B, solve=LA.solve_lu))(jnp.ones((1, 1)), jnp.ones((1, 1)))
    a = P.fresh("a")
    A = np.empty((1, 1), dtype=object)
    A[0, 0] = a
    B = np.empty((1, 1), dtype=object)
    B[0, 0] = P.ONE_V
    ctx = interp.Ctx()
    interp.eval_jaxpr(ctx, closed.jaxpr, closed.consts, A, B)
    calls = [c for c in prims.CALL_LOG if c["name"] == "solve_lu"]
    assert len(calls) == 2, "expected exactly two solves in init"
    D, N = calls[0]["operands"][0][0, 0].p, calls[0]["operands"][1][0, 0].p
    assert calls[1]["operands"][0][0, 0].p.key() == D.key(), "both solves must use the same denominator V - U"
    rhs = [v for v in calls[1]["operands"][1].reshape(-1)]
    sid = P._sid(a)

    def coeffs(p):
        out = {}
        for m, c in p.t.items():
            e = dict(m).get(sid, 0)
            rest = tuple(x for x in m if x[0] != sid)
            if rest:
                return None
            out[e] = out.get(e, F(0)) + c
        return out

    K = 2 * q + 6
    Dc, Nc = coeffs(D), coeffs(N)
    obligations = []
    expo = [F(1, math.factorial(k)) for k in range(K)]
    res = [x - Nc.get(k, 0) for k, x in enumerate(_mul(Dc, expo, K))]
    order = next((k for k, v in enumerate(res) if v != 0), K)
    obligations.append({"name": f"{table}.pade_order", "required": 2 * q + 1, "found": order, "ok": order >= 2 * q + 1})
    obligations.append({"name": f"{table}.number_of_legendre_columns", "required": q + 1, "found": len(rhs), "ok": len(rhs) == q + 1})
    for i, r in enumerate(rhs):
        Ni = (r * P.sqrt(P.as_v(2 * i + 1))).p  # remove the 1/sqrt(2i+1) normalisation
        Nic = coeffs(Ni)
        need = 2 * q - i if i < q else q + 2
        if Nic is None:
            obligations.append({"name": f"{table}.legendre_order[{i}]", "required": need, "found": "not a rational polynomial in a", "ok": False})
            continue
        ts = [(2 * i + 1) * x for x in _t_series(i, K)]
        res = [x - Nic.get(k, 0) for k, x in enumerate(_mul(Dc, ts, K))]
        order = next((k for k, v in enumerate(res) if v != 0), K)
        obligations.append({"name": f"{table}.legendre_order[{i}]", "required": need, "found": order, "ok": order >= need})
    return obligations


def extra_checks(tier, seed):
    viol, samples, n, ok = [], [], 0, 0
    for t in TABLES:
        for ob in check_table(t):
            n += 1
            if ob["ok"]:
                ok += 1
            else:
                viol.append({"contract": "extra:gram_util." + t + ".init", "obligation": ob["name"], "reason": f"order condition holds only to O(a^{ob['found']}), required O(a^{ob['required']})", "native": {"violated": False, "note": "exact power-series computation on the polynomials extracted from the real init; see verifier_output"}, "detail": ob})
            if len(samples) < 4:
                samples.append(ob)
    return [{"obligations": n, "discharged": ok, "by_backend": {"exact-series(Q)": ok}, "violations": viol, "samples": samples,
             "functions": {"gram_util.pade_and_legendre_{3,5,7,9,13}.init (order conditions)": {"instances": len(TABLES), "obligations": n, "discharged": ok}}}]
