"""Contracts for the constrained Gauss-Newton routine and its use as Taylor point (C19)."""

import dataclasses

import jax
import jax.numpy as jnp
import numpy as np

from vcgen import prims
from vcgen.harness import Contract, Instance, eq, ge, gt, holds, hoare_while

MOD = "probdiffeq._probdiffeq.taylor_points"
_C = {}


def constraint_uf(D, m):
    if (D, m) not in _C:
        W = np.random.default_rng(11).normal(size=(m, D))
        _C[(D, m)] = prims.make_uf(f"c_{D}_{m}", [(D,)], (m,), native=lambda x: jnp.asarray(W) @ x + 0.2 * jnp.sin(x[:m]) - 0.5, time_arg=False)
    return _C[(D, m)]


def _all(cs):
    out = cs[0]
    for c in cs[1:]:
        out = jnp.logical_and(out, c)
    return out


def loop_contract():
    """Every exit of the iteration is justified, the statistics are truthful, and the displacement
    from the mean lies in range(L L^T J^T) of the last linearisation (all iteration counts)."""

    def wrap(target):
        def f(x0, mean, cholesky, tol, *, D, m, maxiter):
            from probdiffeq._probdiffeq.taylor_points import lstsq_constrained_gauss_newton
            import probdiffeq.backend.linalg as LA

            c = constraint_uf(D, m)

            def inv(init, s, g):
                J = c.jac[0](g["xprev"])
                H = J @ cholesky
                r = g["fprev"] + J @ (mean - g["xprev"])
                z = prims.lstsq_row_space_witness(H, r)
                ind = jnp.where(g["count"] >= 1.0, 1.0, 0.0)  # 1 once at least one iteration has run
                return [
                    eq("residual_is_constraint_at_iterate", s.fx, c(s.x)),
                    eq("counter_counts_iterations", s.i, g["count"]),
                    ge("counter_nonneg", g["count"]),
                    eq("displacement_in_range_of_cov_times_JT", ind * (s.x - mean + cholesky @ (cholesky.T @ (J.T @ z))), 0.0),
                    eq("increment_is_last_increment", ind * (s.dx - (s.x - g["xprev"])), 0.0),
                    holds("before_the_first_iteration_the_increment_does_not_look_converged", jnp.logical_or(g["count"] >= 1.0, jnp.sum(s.dx * s.dx) > tol * tol * D)),
                    eq("before_the_first_iteration_the_iterate_is_the_start", (1.0 - ind) * (s.x - x0), 0.0),
                    eq("last_linearisation_used_the_constraint_value", g["fprev"], c(g["xprev"])),
                ]

            def expose(init, s2, g2):
                CUR["ghost"] = g2

            rule = hoare_while(
                inv, name="gauss_newton",
                ghost_init=lambda init: {"count": jnp.asarray(0.0), "xprev": init.x, "fprev": init.fx},
                ghost_step=lambda init, s, g, s1: {"count": g["count"] + 1.0, "xprev": s.x, "fprev": s.fx},
                expose=expose,
            )
            solver = lstsq_constrained_gauss_newton(maxiter=maxiter, tol=tol, lstsq=LA.lstsq_svd, while_loop=rule)
            x, stats = solver(lambda s: c(s), x0, mean, cholesky)
            g2 = CUR["ghost"]
            return x, stats["iters"], stats["final_constraint"], stats["final_increment"], g2["count"], g2["xprev"], g2["fprev"]

        return f

    def ensures(res, x0, mean, cholesky, tol, *, D, m, maxiter):
        x, iters, fc, finc, gcount, gxprev, gfprev = res
        c = constraint_uf(D, m)
        g = {"count": gcount, "xprev": gxprev}
        J = c.jac[0](g["xprev"])
        z = prims.lstsq_row_space_witness(J @ cholesky, gfprev + J @ (mean - g["xprev"]))
        nf = jnp.sqrt(jnp.sum(fc * fc))
        nd = jnp.sqrt(jnp.sum(finc * finc))
        ind = jnp.where(g["count"] >= 1.0, 1.0, 0.0)
        sq = lambda k: jnp.sqrt(jnp.asarray(float(k)))
        return [
            # the "no more progress" exit is only a justification once an iteration has actually been taken
            holds("exit_is_justified", jnp.logical_or(jnp.logical_or(nf <= tol * sq(m), iters >= maxiter), jnp.logical_and(g["count"] >= 1.0, nd <= tol * sq(D)))),
            eq("reported_residual_is_constraint_at_returned_point", fc, c(x)),
            eq("reported_iteration_count", iters, g["count"]),
            eq("last_linearisation_point_value", gfprev, c(gxprev)),
            eq("displacement_in_range_of_cov_times_JT", ind * (x - mean + cholesky @ (cholesky.T @ (J.T @ z))), 0.0),
            eq("reported_increment_is_last_increment", ind * (finc - (x - g["xprev"])), 0.0),
        ]

    def instances(tier):
        out = []
        for D, m in [(2, 1), (3, 2)] + ([(4, 2), (4, 3)] if tier == "thorough" else []):
            def make(rng, D=D, m=m):
                return (jnp.asarray(rng.normal(size=(D,))), jnp.asarray(rng.normal(size=(D,))), jnp.asarray(rng.normal(size=(D, D))), jnp.asarray(1e-6)), {"D": D, "m": m, "maxiter": 10}
            out.append(Instance(f"D={D},m={m}", make, positive=lambda a, k: [a[3]], names=lambda a, k: {id(a[0]): "x0", id(a[1]): "mean", id(a[2]): "L", id(a[3]): "tol"}))
        return out

    def requires(x0, mean, cholesky, tol, *, D, m, maxiter):
        return [gt("tolerance_below_one(the initial unit increment must not look converged)", 1.0 - tol)]

    return Contract(name=f"{MOD}:lstsq_constrained_gauss_newton.__call__[loop]", module=MOD, qualname="lstsq_constrained_gauss_newton.__call__",
                    wrap=lambda target: wrap(target), ensures=ensures, requires=requires, instances=instances,
                    doc="loop rule: exit justified by one of the three documented reasons; truthful stats; displacement in range(L L^T J^T) also for singular L")


CUR: dict = {}


def affine_contract(iterations):
    """Affine constraints: one iteration from the mean lands on the Gaussian conditional mean; a second
    iteration does not move."""

    def wrap(target):
        def f(mean, cholesky, A, c0, W, *, D, m):
            from probdiffeq._probdiffeq.taylor_points import lstsq_constrained_gauss_newton
            import probdiffeq.backend.linalg as LA

            def run_fixed(cond_fun, body_fun, init):
                s = init
                for _ in range(iterations):
                    s = body_fun(s)
                return s

            solver = lstsq_constrained_gauss_newton(maxiter=10, tol=1e-6, lstsq=LA.lstsq_svd, while_loop=run_fixed)
            x, stats = solver(lambda s: A @ s + c0, mean, mean, cholesky)
            return x, stats["final_increment"], stats["iters"]

        return f

    def requires(mean, cholesky, A, c0, W, *, D, m):
        S = A @ cholesky @ cholesky.T @ A.T
        return [eq("innovation_covariance_invertible(ghost_inverse_W)", S @ W, jnp.eye(m)), eq("ghost_inverse_is_two_sided", W @ S, jnp.eye(m))]

    def ensures(res, mean, cholesky, A, c0, W, *, D, m):
        x, finc, iters = res
        S = A @ cholesky @ cholesky.T @ A.T
        P = cholesky @ cholesky.T
        H = A @ cholesky
        r = (A @ mean + c0) + A @ (mean - mean)
        z = prims.lstsq_row_space_witness(H, r)
        # For one constraint row the statements are proved as written.  For several rows they are proved multiplied
        # by the innovation covariance S (S v = 0); with S invertible (the ghost inverse W of the precondition) this is
        # v = 0 -- that last step of linear algebra is not found by the certificate search and is left as stated.
        lift = (lambda v: v) if m == 1 else (lambda v: S @ v)
        cl = [
            eq("feasible" if m == 1 else "feasible(S-multiplied)", lift(A @ x + c0), 0.0),
            eq("displacement_in_range_of_cov_times_AT", x - mean + P @ (A.T @ z), 0.0),
            # together: S z = A m + c0, i.e. x = m - P A^T S^{-1} (A m + c0), the Gaussian conditional mean
            eq("is_gaussian_conditional_mean" if m == 1 else "is_gaussian_conditional_mean(S-multiplied)", lift(S @ z - (A @ mean + c0)), 0.0),
            eq("iteration_count", iters, float(iterations)),
        ]
        if iterations >= 2:
            cl.append(eq("second_iteration_does_not_move", finc, 0.0))
        else:
            cl.append(eq("reported_increment_is_the_displacement_from_the_start", finc, x - mean))
        return cl

    def instances(tier):
        out = []
        for D, m in [(2, 1), (3, 1)] + ([(3, 2), (4, 2)] if tier == "thorough" else []):
            def make(rng, D=D, m=m):
                L = rng.normal(size=(D, D))
                A = rng.normal(size=(m, D))
                W = np.linalg.inv(A @ L @ L.T @ A.T)
                return (jnp.asarray(rng.normal(size=(D,))), jnp.asarray(L), jnp.asarray(A), jnp.asarray(rng.normal(size=(m,))), jnp.asarray(W)), {"D": D, "m": m}
            out.append(Instance(f"D={D},m={m}", make, names=lambda a, k: {id(a[0]): "mean", id(a[1]): "L", id(a[2]): "A", id(a[3]): "c0", id(a[4]): "W"}))
        return out

    return Contract(name=f"{MOD}:lstsq_constrained_gauss_newton.__call__[affine,{iterations}it]", module=MOD, qualname="lstsq_constrained_gauss_newton.__call__",
                    wrap=wrap, requires=requires, ensures=ensures, instances=instances,
                    doc="affine constraint: exact Gaussian conditional mean after one iteration of the real loop body, fixed point afterwards")


def map_point_contract():
    def wrap(target):
        def f(rv, tol, *, D, m):
            from probdiffeq._probdiffeq.taylor_points import lstsq_constrained_gauss_newton, taylor_point_maximum_a_posteriori
            import probdiffeq.backend.linalg as LA

            def run_once(cond_fun, body_fun, init):
                return body_fun(init)

            c = constraint_uf(D, m)
            tp = taylor_point_maximum_a_posteriori(nlstsq=lstsq_constrained_gauss_newton(maxiter=10, tol=tol, lstsq=LA.lstsq_svd, while_loop=run_once))
            return target(tp, lambda s, **kw: c(s), rv)

        return f

    def ensures(res, rv, tol, *, D, m):
        c = constraint_uf(D, m)
        mean, L = rv.mean_flat, rv.cholesky_flat
        J = c.jac[0](mean)
        z = prims.lstsq_row_space_witness(J @ L, c(mean) + J @ (mean - mean))
        return [eq("started_at_and_weighted_by_the_given_rv", res, mean - L @ (L.T @ (J.T @ z)))]

    def instances(tier):
        def make(rng, D=2, m=1):
            from .gaussians import DenseL

            return (DenseL.normal_obj(rng, D, 1), jnp.asarray(1e-6)), {"D": D, "m": m}
        return [Instance("D=2,m=1", make)]

    return Contract(name=f"{MOD}:taylor_point_maximum_a_posteriori.__call__", module=MOD, qualname="taylor_point_maximum_a_posteriori.__call__",
                    wrap=wrap, ensures=ensures, instances=instances, doc="MAP Taylor point = constrained least squares started at the rv's mean with the rv's Cholesky factor")


def contracts():
    return [loop_contract(), affine_contract(1), affine_contract(2), map_point_contract()]
