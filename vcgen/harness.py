"""Contracts, modular verification of one function against its contract, discharge, replay."""

from __future__ import annotations

import importlib
import json
import os
import time
import traceback
from dataclasses import dataclass, field
from fractions import Fraction
from typing import Any, Callable

import jax
import jax.numpy as jnp
import numpy as np

from . import cert, interp, prims, smt
from . import poly as P
from .poly import B, V

jax.config.update("jax_enable_x64", True)

Z3_TIMEOUT = float(os.environ.get("VC_Z3_TIMEOUT", "20"))
CVC5_TIMEOUT = float(os.environ.get("VC_CVC5_TIMEOUT", "20"))
USE_CVC5 = os.environ.get("VC_USE_CVC5", "1") == "1"
CVC5_MODE = os.environ.get("VC_CVC5_MODE", "fallback")  # "always" in the thorough tier


# --------------------------------------------------------------------------------------
# clauses
# --------------------------------------------------------------------------------------


@dataclass
class Clause:
    name: str
    kind: str  # 'eq' (value == 0), 'ge' (value >= 0), 'gt' (value > 0), 'true' (bool array), 'def'
    value: Any
    lhs: Any = None  # for 'def': the output leaf being defined


def eq(name, a, b=0.0):
    a, b = jnp.asarray(a), jnp.asarray(b)
    if a.ndim and b.ndim and a.shape != b.shape:
        # two arrays of different shapes are never equal (silent broadcasting would hide e.g. swapped all-ones scalings)
        return Clause(f"{name}(shape {tuple(a.shape)} vs {tuple(b.shape)})", "true", jnp.asarray(False))
    return Clause(name, "eq", a - b)


def ge(name, a, b=0.0):
    return Clause(name, "ge", jnp.asarray(a) - jnp.asarray(b))


def gt(name, a, b=0.0):
    return Clause(name, "gt", jnp.asarray(a) - jnp.asarray(b))


def holds(name, cond):
    return Clause(name, "true", jnp.asarray(cond))


def independent_of(name, value, leaves):
    """Frame / dependence clause: ``value`` must not depend on any of the given *input leaves*
    (checked on the symbolic result by following symbols through atoms and opaque calls)."""
    return Clause(name, "indep", jnp.asarray(value), lhs=list(leaves))


def affine_in_draws(name, value, mean, cov):
    """``value`` (flattened) must be an affine function of the standard-normal draws with constant part
    ``mean`` and linear part J such that J J^T == ``cov`` (exact: coefficients are read off the symbolic
    result, draws are the symbols produced by the random.normal kernel)."""
    v, m, c = jnp.ravel(jnp.asarray(value)), jnp.ravel(jnp.asarray(mean)), jnp.asarray(cov)
    assert m.shape == v.shape and c.shape == (v.size, v.size), (v.shape, m.shape, c.shape)
    return Clause(name, "affine", jnp.concatenate([v, m, jnp.ravel(c)]), lhs=int(v.size))


def expectation_over_probes(name, value, target):
    """Exact expectation of ``value`` over independent Rademacher probes (symbols v with v^2 = 1,
    E[v] = 0): every monomial that still contains a probe symbol has zero mean; what remains must
    equal ``target``.  This equals the average over the full enumeration of all sign assignments."""
    v, t = jnp.ravel(jnp.asarray(value)), jnp.ravel(jnp.asarray(target))
    assert v.shape == t.shape, (v.shape, t.shape)
    return Clause(name, "expect", jnp.concatenate([v, t]), lhs=int(v.size))


def cancel(name, X, N, V):
    """Left cancellation (a proof hint, sound by construction): to show X == 0 it suffices that N X == 0 and
    V N == I.  Emits the obligations ``name.premultiplied`` (N X == 0) and ``name.left_inverse`` (V N == I), which
    are discharged like any other equality, and then ``name`` (X == 0) with the explicit certificate
        X_ij = sum_l V_il (N X)_lj - sum_k (V N - I)_ik X_kj
    that is re-checked by the SMT solvers together with the searched certificates."""
    X, N, V = jnp.asarray(X), jnp.asarray(N), jnp.asarray(V)
    X2 = X.reshape(X.shape[0], -1)
    assert N.shape[1] == X2.shape[0] and V.shape == (N.shape[1], N.shape[0]), (X.shape, N.shape, V.shape)
    return Clause(name, "cancel", jnp.concatenate([jnp.ravel(X2), jnp.ravel(N), jnp.ravel(V)]), lhs=(X2.shape, N.shape, V.shape))


_ASSUMING = [0]


def assuming():
    """True while the ensures-clauses of a callee are traced as assumptions at a call site (proof-only clauses
    such as ``cancel`` lemmas can be skipped there)."""
    return _ASSUMING[0] > 0


def define(name, out_leaf, expr):
    """Equality ``out_leaf == expr`` where ``out_leaf`` is literally a leaf of the result.

    As a goal it is an ordinary equality; as an assumption at a call site the leaf is *substituted*
    by ``expr`` (no fresh symbols), which keeps caller-side algebra free of rewriting.
    """
    return Clause(name, "def", jnp.asarray(expr), lhs=out_leaf)


@dataclass
class Instance:
    name: str
    make: Callable  # rng -> (args tuple, kwargs dict) with concrete arrays
    positive: Callable = lambda args, kwargs: []  # -> list of leaf arrays whose entries are > 0
    nonneg: Callable = lambda args, kwargs: []
    symbolic_ints: Callable = lambda args, kwargs: []  # integer leaves to be treated symbolically
    names: Callable = lambda args, kwargs: {}  # -> {id(leaf): readable name}
    structure: Callable | None = None  # (name, index tuple) -> None | Fraction  (fixed entries)
    meta: dict = field(default_factory=dict)


@dataclass
class Contract:
    name: str  # unique id, conventionally module:qualname
    module: str
    qualname: str
    ensures: Callable  # (result, *args, **kwargs) -> list[Clause]
    requires: Callable | None = None  # (*args, **kwargs) -> list[Clause]
    instances: Callable | None = None  # tier -> list[Instance]
    callees: list = field(default_factory=list)  # contracts assumed at call sites
    premises: list = field(default_factory=list)  # contracts this one assumes without a call site to patch (an abstract
    # stub or a lemma stands for them): their home proofs are discharged with it (all_contracts), nothing is patched
    inherits: tuple = ()  # substrings of kernel-precondition names accepted as inherited requires
    doc: str = ""
    wrap: Callable | None = None  # optional: builds the callable from the resolved attribute
    lemma_order: bool = True  # earlier proven 'eq' clauses become hypotheses for later ones
    native_tol: float = 1e-7

    def resolve(self):
        mod = importlib.import_module(self.module)
        obj = mod
        owner = None
        for part in self.qualname.split("."):
            owner = obj
            obj = getattr(obj, part)
        return owner, self.qualname.split(".")[-1], obj


# --------------------------------------------------------------------------------------
# pytree plumbing
# --------------------------------------------------------------------------------------


def _is_arraylike(x):
    return isinstance(x, (jax.Array, np.ndarray, jax.core.Tracer)) or (
        isinstance(x, (np.generic,))
    )


def split_leaves(tree):
    leaves, treedef = jax.tree_util.tree_flatten(tree)
    arr_idx = [i for i, l in enumerate(leaves) if _is_arraylike(l)]
    return leaves, treedef, arr_idx


def rebuild(leaves, treedef, arr_idx, arrays):
    ls = list(leaves)
    for i, a in zip(arr_idx, arrays):
        ls[i] = a
    return jax.tree_util.tree_unflatten(treedef, ls)


def keypaths(tree):
    flat = jax.tree_util.tree_flatten_with_path(tree)[0]
    return [jax.tree_util.keystr(p) for p, _ in flat]


# --------------------------------------------------------------------------------------
# callee replacement
# --------------------------------------------------------------------------------------

_PATCHED: dict = {}


def patch_callee(contract: Contract):
    if contract.name in _PATCHED:
        return
    owner, attr, orig = contract.resolve()
    raw = owner.__dict__.get(attr, orig) if hasattr(owner, "__dict__") else orig
    is_static = isinstance(raw, staticmethod)
    is_class = isinstance(raw, classmethod)
    fn = raw.__func__ if (is_static or is_class) else raw

    def wrapper(*args, **kwargs):
        if not prims.MODE.symbolic or contract.name in _DISABLED:
            return fn(*args, **kwargs)
        leaves, treedef, arr_idx = split_leaves((args, kwargs))
        arrays = [jnp.asarray(leaves[i]) for i in arr_idx]

        def call(*arrs):
            a, k = rebuild(leaves, treedef, arr_idx, arrs)
            _DISABLED.add(contract.name)
            try:
                return fn(*a, **k)
            finally:
                _DISABLED.discard(contract.name)

        out_shape = jax.eval_shape(call, *arrays)
        out_leaves, out_tree = jax.tree_util.tree_flatten(out_shape)
        info = prims.Static(
            {
                "contract": contract,
                "leaves": leaves,
                "treedef": treedef,
                "arr_idx": arr_idx,
                "out_tree": out_tree,
                "fn": fn,
            }
        )
        outs = prims.bind_opaque(f"callee::{contract.name}", arrays, out_leaves, static=info)
        return jax.tree_util.tree_unflatten(out_tree, outs)

    wrapper.__vc_orig__ = fn
    new = staticmethod(wrapper) if is_static else (classmethod(wrapper) if is_class else wrapper)
    setattr(owner, attr, new)
    _PATCHED[contract.name] = (owner, attr, raw)


_DISABLED: set = set()


def unpatch_all():
    for name, (owner, attr, raw) in reversed(list(_PATCHED.items())):  # reverse order: two contracts may patch one attribute
        setattr(owner, attr, raw)
    _PATCHED.clear()


def _callee_handler(ctx, prm, *operands):
    info = prm["static"].value
    contract: Contract = info["contract"]
    leaves, treedef, arr_idx, out_tree = info["leaves"], info["treedef"], info["arr_idx"], info["out_tree"]
    cid = prims._count(f"callee::{contract.name}")
    tag = f"{contract.name.split(':')[-1]}#{cid}"
    in_avals = [jax.ShapeDtypeStruct(np.shape(o), _dtype_of(o)) for o in operands]
    out_structs = jax.tree_util.tree_leaves(out_tree.unflatten([None] * out_tree.num_leaves)) if False else None
    # output avals come from the eqn; recover through eval_shape of the original
    fn = info["fn"]

    def call(*arrs):
        a, k = rebuild(leaves, treedef, arr_idx, arrs)
        _DISABLED.add(contract.name)
        try:
            return fn(*a, **k)
        finally:
            _DISABLED.discard(contract.name)

    with prims.symbolic_mode():
        out_shape = jax.eval_shape(call, *in_avals)
    out_avals = jax.tree_util.tree_leaves(out_shape)

    # 1. requires -> obligations at the call site
    if contract.requires is not None:
        def req(*arrs):
            a, k = rebuild(leaves, treedef, arr_idx, arrs)
            return [c.value for c in contract.requires(*a, **k)], [(c.name, c.kind) for c in contract.requires(*a, **k)]

        vals, meta = _trace_eval(ctx, req, in_avals, operands)
        for (nm, kind), val in zip(meta, vals):
            _emit(ctx, f"{tag}.requires.{nm}", kind, val, as_goal=True, side="callee-precondition")

    # 2. fresh outputs
    fresh = []
    fresh_sids = []
    for k, av in enumerate(out_avals):
        if av.dtype.kind in "ui" and False:
            raise interp.Unsupported("integer outputs of a callee under contract")
        arr, sids = prims.fresh_array(tuple(av.shape), f"{tag}.out{k}", kind="callee")
        fresh.append(arr)
        fresh_sids.append(sids)

    # 3. ensures -> assumptions (two passes to substitute 'def' clauses)
    def ens(*arrs):
        ins = arrs[: len(in_avals)]
        outs = arrs[len(in_avals) :]
        a, k = rebuild(leaves, treedef, arr_idx, ins)
        result = jax.tree_util.tree_unflatten(out_tree, list(outs))
        cl = contract.ensures(result, *a, **k)
        metas = []
        for c in cl:
            which = None
            if c.kind == "def":
                for oi, o in enumerate(outs):
                    if c.lhs is o:
                        which = oi
                if which is None:
                    raise RuntimeError(f"'define' clause {c.name} of {contract.name} does not name a result leaf")
            if c.kind == "cancel":
                which = c.lhs
            metas.append((c.name, c.kind, which))
        return [c.value for c in cl], metas

    all_avals = in_avals + [jax.ShapeDtypeStruct(a.shape, a.dtype) for a in out_avals]
    sub_ctx = interp.Ctx()
    sub_ctx.path = list(ctx.path)
    _ASSUMING[0] += 1
    try:
        vals, metas = _trace_eval(sub_ctx, ens, all_avals, list(operands) + fresh)
        defs = {which: val for (nm, kind, which), val in zip(metas, vals) if kind == "def"}
        if defs:
            for which, val in defs.items():
                fresh[which] = val
            vals, metas = _trace_eval(ctx, ens, all_avals, list(operands) + fresh)
        else:
            ctx.assumptions.extend(sub_ctx.assumptions)
            ctx.obligations.extend(sub_ctx.obligations)
    finally:
        _ASSUMING[0] -= 1
    for (nm, kind, which), val in zip(metas, vals):
        if kind == "def":
            continue
        if kind == "cancel":  # at a call site only the conclusion X == 0 is assumed
            n_x = int(np.prod(which[0]))
            val = (val if interp.is_obj(val) else interp.to_obj(val))[:n_x]
            kind = "eq"
        _emit(ctx, f"{tag}.{nm}", kind, val, as_goal=False, origin=f"callee:{contract.name}")

    def native(*arrs):
        with _native_mode():
            a, k = rebuild(leaves, treedef, arr_idx, [jnp.asarray(x) for x in arrs])
            res = fn(*a, **k)
        return [np.asarray(x) for x in jax.tree_util.tree_leaves(res)]

    prims.CALL_LOG.append(
        {"name": f"callee::{contract.name}", "operands": list(operands), "out_sids": fresh_sids, "native": native}
    )
    ctx.kernel_calls.append(contract.name)
    return fresh


prims.BASE_HANDLERS["callee"] = _callee_handler


class TargetRaised(Exception):
    """The real function raised while being traced on an instance that satisfies its precondition."""


class _native_mode:
    def __enter__(self):
        self.prev = prims.MODE.symbolic
        prims.MODE.symbolic = False

    def __exit__(self, *a):
        prims.MODE.symbolic = self.prev


def _dtype_of(o):
    if interp.is_obj(o):
        first = o.reshape(-1)[0] if o.size else None
        if isinstance(first, B):
            return np.bool_
        return np.float64
    return np.asarray(o).dtype


def _trace_eval(ctx, fun, avals, operands):
    """Trace ``fun(*arrays) -> (list of arrays, static meta)`` and evaluate it symbolically."""
    meta_box = {}

    def wrapped(*arrs):
        vals, meta = fun(*arrs)
        meta_box["meta"] = meta
        return vals

    with prims.symbolic_mode():
        closed = jax.make_jaxpr(wrapped)(*avals)
    ops = [interp._ingest(o) if not interp.is_obj(o) else o for o in operands]
    ops2 = []
    for o, av in zip(ops, avals):
        if not interp.is_obj(o) and interp.is_float_dtype(av.dtype):
            o = interp.to_obj(o)
        ops2.append(o)
    vals = interp.eval_jaxpr(ctx, closed.jaxpr, closed.consts, *ops2)
    return vals, meta_box["meta"]


def _emit(ctx, name, kind, val, *, as_goal, side=None, origin="contract"):
    val = val if interp.is_obj(val) else (interp.to_obj(val, "B") if np.asarray(val).dtype == np.bool_ else interp.to_obj(val))
    for ix in np.ndindex(*val.shape):
        x = val[ix]
        nm = name + (str(list(ix)).replace(" ", "") if val.shape else "")
        if kind in ("eq", "def"):
            if as_goal:
                ctx.oblige_eq(nm, x, side=side)
            else:
                ctx.assume_eq(nm, x, origin=origin)
        else:
            if kind == "ge":
                b = P.cmp0("ge", x)
            elif kind == "gt":
                b = P.cmp0("gt", x)
            elif kind == "true":
                b = x if isinstance(x, B) else P.b_const(bool(x.const_value()))
            else:
                raise ValueError(kind)
            if as_goal:
                ctx.oblige_bool(nm, b, side=side)
            else:
                ctx.assume_bool(nm, b, origin=origin)


# --------------------------------------------------------------------------------------
# verification of one function instance
# --------------------------------------------------------------------------------------


@dataclass
class Result:
    contract: str
    instance: str
    obligations: int = 0
    discharged: int = 0
    by_backend: dict = field(default_factory=dict)
    failed: list = field(default_factory=list)  # dicts
    undecided: list = field(default_factory=list)
    inherited: list = field(default_factory=list)
    assumptions_used: int = 0
    kernel_calls: dict = field(default_factory=dict)
    prims_seen: dict = field(default_factory=dict)
    selfcheck: dict = field(default_factory=dict)
    solver_s: dict = field(default_factory=dict)
    wall_s: float = 0.0
    samples: list = field(default_factory=list)
    error: str | None = None
    num_eqns: int = 0
    proved_names: set = field(default_factory=set)
    audit: dict = field(default_factory=dict)


def _emit_cancel(ctx, name, packed, shapes):
    packed = packed if interp.is_obj(packed) else interp.to_obj(packed)
    (xr, xc), (nr, nc), (vr, vc) = shapes
    X = packed[: xr * xc].reshape(xr, xc)
    N = packed[xr * xc : xr * xc + nr * nc].reshape(nr, nc)
    Vm = packed[xr * xc + nr * nc :].reshape(vr, vc)
    NX = np.empty((nr, xc), dtype=object)
    for i in range(nr):
        for j in range(xc):
            acc = P.ZERO
            for l in range(nc):
                acc = acc + N[i, l] * X[l, j]
            NX[i, j] = acc
            ctx.oblige_eq(f"{name}.premultiplied[{i},{j}]", acc)
    VN = np.empty((vr, nc), dtype=object)
    for i in range(vr):
        for k in range(nc):
            acc = P.ZERO
            for l in range(vc):
                acc = acc + Vm[i, l] * N[l, k]
            acc = acc - (P.ONE_V if i == k else P.ZERO)
            VN[i, k] = acc
            ctx.oblige_eq(f"{name}.left_inverse[{i},{k}]", acc)
    for i in range(xr):
        for j in range(xc):
            hint = [(f"{name}.premultiplied[{l},{j}]", NX[l, j], Vm[i, l].p) for l in range(nr)]
            hint += [(f"{name}.left_inverse[{i},{k}]", VN[i, k], (-X[k, j]).p) for k in range(nc)]
            ctx.oblige_eq(f"{name}[{i},{j}]", X[i, j], hint=hint)


def _emit_affine(ctx, name, packed, n):
    packed = packed if interp.is_obj(packed) else interp.to_obj(packed)
    vals, means, covs = packed[:n], packed[n : 2 * n], packed[2 * n :].reshape(n, n)
    draws = {sid for sid, info in enumerate(P.SYMS) if info["kind"] == "draw"}
    const_part = []
    rows = []
    for i in range(n):
        p = vals[i].p
        c0 = {}
        row = {}
        ok = True
        for m, c in p.t.items():
            ds = [(s, e) for s, e in m if s in draws]
            if not ds:
                c0[m] = c
            elif len(ds) == 1 and ds[0][1] == 1:
                rest = tuple(x for x in m if x[0] != ds[0][0])
                row.setdefault(ds[0][0], {})[rest] = c
            else:
                ok = False
        ctx.obligations.append({"name": f"{name}.affine_in_draws[{i}]", "kind": "bool", "goal": P.TRUE if ok else P.FALSE, "path": [], "n_assm": 0})
        const_part.append(P.Poly(c0))
        rows.append({k: P.Poly(v) for k, v in row.items()})
    for i in range(n):
        ctx.oblige_eq(f"{name}.zero_draws_give_mean[{i}]", V(const_part[i]) - means[i])
    for i in range(n):
        for j in range(i, n):
            acc = P.Poly()
            for k, pi in rows[i].items():
                pj = rows[j].get(k)
                if pj is not None:
                    acc = acc + pi * pj
            ctx.oblige_eq(f"{name}.gram_of_linear_map_is_cov[{i},{j}]", V(acc) - covs[i, j])


def dependency_cone(v):
    """All symbols a symbolic value depends on, through atoms and opaque (kernel/callee/stub) calls."""
    rec_of = {}
    for rec in prims.CALL_LOG:
        for sids in rec["out_sids"]:
            for x in np.asarray(sids).reshape(-1):
                if x >= 0:
                    rec_of[int(x)] = rec
    seen = set()
    stack = list(v.p.syms()) if isinstance(v, V) else []
    if isinstance(v, B):
        stack = _bool_syms(v)
    while stack:
        sid = stack.pop()
        if sid in seen:
            continue
        seen.add(sid)
        info = P.SYMS[sid]
        if info["kind"] == "atom":
            for a in info.get("args", ()):
                if isinstance(a, V):
                    stack.extend(a.p.syms())
                elif isinstance(a, B):
                    stack.extend(_bool_syms(a))
        rec = rec_of.get(sid)
        if rec is not None:
            for o in rec["operands"]:
                if interp.is_obj(o):
                    for x in o.reshape(-1):
                        if isinstance(x, V):
                            stack.extend(x.p.syms())
                        elif isinstance(x, B):
                            stack.extend(_bool_syms(x))
    return seen


def _bool_syms(b):
    out = []
    for a in b.args:
        if isinstance(a, V):
            out.extend(a.p.syms())
        elif isinstance(a, B):
            out.extend(_bool_syms(a))
    return out


def _bool_cone(b):
    """Symbols a boolean expression depends on (through atoms and opaque calls)."""
    out = set()
    if not isinstance(b, B):
        return out
    for a in b.args:
        if isinstance(a, V):
            out |= dependency_cone(a)
        elif isinstance(a, B):
            out |= _bool_cone(a)
    return out


def symbolic_inputs(tree, inst: Instance):
    """Replace every float array leaf by fresh symbols; returns (sym leaves, input sid arrays)."""
    leaves, treedef, arr_idx = split_leaves(tree)
    paths = keypaths(tree)
    args, kwargs = tree
    pos_ids = {id(x) for x in inst.positive(args, kwargs)}
    nn_ids = {id(x) for x in inst.nonneg(args, kwargs)}
    int_ids = {id(x) for x in inst.symbolic_ints(args, kwargs)}
    names = inst.names(args, kwargs)
    sym = []
    sids_all = []
    alias = {}
    for i in arr_idx:
        leaf = leaves[i]
        if id(leaf) in alias:  # the same array object at several leaves: one set of symbols
            k = alias[id(leaf)]
            sym.append(sym[k])
            sids_all.append(sids_all[k])
            continue
        alias[id(leaf)] = len(sym)
        a = np.asarray(leaf)
        path = names.get(id(leaf), paths[i])
        if a.dtype.kind == "f" or (a.dtype.kind in "iu" and id(leaf) in int_ids):
            arr = np.empty(a.shape, dtype=object)
            sids = np.full(a.shape, -1, dtype=np.int64)
            pos = id(leaf) in pos_ids
            nn = id(leaf) in nn_ids
            for ix in np.ndindex(*a.shape):
                fixed = inst.structure(path, ix) if inst.structure else None
                if fixed is not None:
                    arr[ix] = P.as_v(fixed)
                    continue
                v = P.fresh(f"{path}{list(ix) if a.shape else ''}".replace(" ", ""), positive=pos, nonneg=nn)
                arr[ix] = v
                sids[ix] = P._sid(v)
            sym.append(arr)
            sids_all.append(sids)
        else:
            sym.append(a)
            sids_all.append(None)
    return leaves, treedef, arr_idx, sym, sids_all


def verify_instance(contract: Contract, inst: Instance, *, seed=0, tier="quick") -> Result:
    t0 = time.time()
    res = Result(contract=contract.name, instance=inst.name)
    P.reset()
    prims.reset()
    cert._CORE_CACHE.clear()  # keyed by symbol ids, which are reused after P.reset(): must not survive a verification unit
    _PROVERS.clear()
    unpatch_all()
    try:
        _verify(contract, inst, res, seed, tier)
    except TargetRaised as e:
        # not a checker problem: the postcondition "returns normally" fails; confirm natively
        res.obligations += 1
        entry = {"obligation": "ensures.returns_normally_inside_precondition", "kind": "bool", "reason": "function-raised", "detail": {"exception": str(e)[:500]}}
        try:
            owner, attr, target = contract.resolve()
            fn = contract.wrap(target) if contract.wrap else target
            args, kwargs = inst.make(np.random.default_rng(seed))
            with _native_mode():
                fn(*args, **kwargs)
            entry["native_confirmed"] = False
        except Exception as e2:
            entry["native_confirmed"] = True
            entry["native_exception"] = f"{type(e2).__name__}: {str(e2)[:300]}"
        res.failed.append(entry)
    except interp.Unsupported as e:
        res.error = f"unsupported: {e}"
    except Exception:
        res.error = "checker-error: " + traceback.format_exc()
    finally:
        unpatch_all()
    res.wall_s = time.time() - t0
    return res


def _verify(contract, inst, res, seed, tier):
    rng = np.random.default_rng(seed)
    owner, attr, target = contract.resolve()
    fn = contract.wrap(target) if contract.wrap else target
    args, kwargs = inst.make(rng)
    for c in contract.callees:
        patch_callee(c)
    leaves, treedef, arr_idx, sym, in_sids = symbolic_inputs((args, kwargs), inst)
    avals = [jax.ShapeDtypeStruct(np.shape(leaves[i]), np.asarray(leaves[i]).dtype) for i in arr_idx]
    ctx = interp.Ctx()

    # requires
    if contract.requires is not None:
        def req(*arrs):
            a, k = rebuild(leaves, treedef, arr_idx, arrs)
            cl = contract.requires(*a, **k)
            return [c.value for c in cl], [(c.name, c.kind) for c in cl]

        vals, meta = _trace_eval(ctx, req, avals, sym)
        for (nm, kind), val in zip(meta, vals):
            _emit(ctx, f"requires.{nm}", kind, val, as_goal=False, origin="requires")

    # body
    out_box = {}

    def body(*arrs):
        a, k = rebuild(leaves, treedef, arr_idx, arrs)
        PENDING.clear()
        try:
            out = fn(*a, **k)
        except (interp.Unsupported, jax.errors.TracerArrayConversionError, jax.errors.ConcretizationTypeError):
            raise
        except Exception as e:  # the function under verification itself raised on an input inside its precondition
            raise TargetRaised(f"{type(e).__name__}: {e}") from e
        ol, ot = jax.tree_util.tree_flatten(out)
        out_box["tree"] = ot
        out_box["static"] = [None if _is_arraylike(l) else l for l in ol]
        marks = list(PENDING)
        PENDING.clear()
        out_box["marks"] = [(m[0], m[1], m[2]) for m in marks]
        res_leaves = [l for l in ol if _is_arraylike(l)]
        out_box["n_res"] = len(res_leaves)
        return res_leaves + [jnp.asarray(m[3]) for m in marks], None

    outs, _ = _trace_eval(ctx, body, avals, sym)
    mark_vals = outs[out_box["n_res"] :]
    outs = outs[: out_box["n_res"]]
    for (mode, nm, kind), val in zip(out_box["marks"], mark_vals):
        _emit(ctx, nm, kind, val, as_goal=(mode == "assert"), origin="loop-rule")
    out_tree = out_box["tree"]
    out_static = out_box["static"]
    out_avals = [jax.ShapeDtypeStruct(np.shape(o), _dtype_of(o)) for o in outs]

    # ensures
    def ens(*arrs):
        ins = arrs[: len(avals)]
        os_ = list(arrs[len(avals) :])
        a, k = rebuild(leaves, treedef, arr_idx, ins)
        it = iter(os_)
        full = [next(it) if s is None else s for s in out_static]
        result = jax.tree_util.tree_unflatten(out_tree, full)
        cl = contract.ensures(result, *a, **k)
        metas = []
        for c in cl:
            which = None
            if c.kind == "indep":
                which = [j for j, x in enumerate(ins) if any(x is l for l in c.lhs)]
            if c.kind in ("affine", "expect", "cancel"):
                which = c.lhs
            metas.append((c.name, c.kind, which))
        return [(jnp.asarray(c.lhs) - c.value) if c.kind == "def" else c.value for c in cl], metas

    n_before = len(ctx.obligations)
    vals, meta = _trace_eval(ctx, ens, avals + out_avals, list(sym) + list(outs))
    for (nm, kind, which), val in zip(meta, vals):
        if kind == "affine":
            _emit_affine(ctx, f"ensures.{nm}", val, which)
            continue
        if kind == "expect":
            packed = val if interp.is_obj(val) else interp.to_obj(val)
            probes = {sid for sid, info in enumerate(P.SYMS) if info["kind"] == "rademacher"}
            for i in range(which):
                p = packed[i].p
                mean = P.Poly({m: c for m, c in p.t.items() if not any(s in probes for s, _ in m)})
                ctx.oblige_eq(f"ensures.{nm}[{i}]", V(mean) - packed[which + i])
            continue
        if kind == "cancel":
            _emit_cancel(ctx, f"ensures.{nm}", val, which)
            continue
        if kind == "indep":
            forbidden = set()
            for j in which:
                if in_sids[j] is not None:
                    forbidden |= {int(x) for x in np.asarray(in_sids[j]).reshape(-1) if x >= 0}
            val = val if interp.is_obj(val) else interp.to_obj(val)
            for ix in np.ndindex(*val.shape):
                deps = dependency_cone(val[ix])
                bad = sorted(deps & forbidden)
                ok = P.TRUE if not bad else P.FALSE
                ctx.obligations.append({"name": f"ensures.{nm}" + (str(list(ix)).replace(" ", "") if val.shape else ""), "kind": "bool", "goal": ok, "path": [], "n_assm": 0, "side": "frame", "detail": [P.SYMS[b]["name"] for b in bad[:6]]})
            continue
        _emit(ctx, f"ensures.{nm}", kind, val, as_goal=True)

    if os.environ.get("VERIF_OUTPUT_COVERAGE"):
        # audit: which result leaves does no postcondition clause mention?  (ensures is re-traced with every float
        # result entry replaced by a probe symbol; a leaf none of whose probes reaches a clause is unconstrained)
        try:
            probes, probe_sids = [], []
            for k, av in enumerate(out_avals):
                if np.dtype(av.dtype).kind == "f":
                    arr, sids = prims.fresh_array(tuple(av.shape), f"outprobe{k}_", kind="outprobe")
                    probes.append(arr)
                    probe_sids.append(set(int(x) for x in np.asarray(sids).reshape(-1)))
                else:
                    probes.append(outs[k])
                    probe_sids.append(None)
            sub = interp.Ctx()
            pvals, _pm = _trace_eval(sub, ens, avals + out_avals, list(sym) + probes)
            seen = set()
            for val in pvals:
                val = val if interp.is_obj(val) else None
                if val is None:
                    continue
                for x in val.reshape(-1):
                    seen |= dependency_cone(x) if isinstance(x, V) else set(_bool_cone(x))
            for a in sub.assumptions + sub.obligations:
                f = a.get("fact", a.get("goal"))
                seen |= dependency_cone(f) if isinstance(f, V) else (set(_bool_cone(f)) if isinstance(f, B) else set())
            paths = keypaths(jax.tree_util.tree_unflatten(out_tree, list(range(len(out_static)))))
            float_paths = [pth for pth, st in zip(paths, out_static) if st is None]
            res.audit["uncovered_outputs"] = [float_paths[k] if k < len(float_paths) else f"result[{k}]" for k, ps in enumerate(probe_sids) if ps and not (ps & seen)]
        except Exception as e:  # the audit must never affect the verdict
            res.audit["uncovered_outputs_error"] = repr(e)[:200]

    res.prims_seen = dict(ctx.prims_seen)
    res.num_eqns = ctx.num_eqns
    kc = {}
    for c in prims.CALL_LOG:
        kc[c["name"]] = kc.get(c["name"], 0) + 1
    res.kernel_calls = kc

    # numeric environment for self-check / triage
    numenv = NumEnv(contract, inst, leaves, treedef, arr_idx, in_sids, fn, out_tree, out_static)

    # self-check (translation validation of the extractor; also the vacuity witness)
    try:
        res.selfcheck = numenv.selfcheck(outs, seed)
    except Exception as e:
        res.selfcheck = {"error": repr(e)[:300]}
    if res.selfcheck.get("mismatch"):
        res.error = f"checker-error: self-check mismatch {res.selfcheck}"
        return

    discharge(ctx, contract, res, numenv, seed)


# --------------------------------------------------------------------------------------
# numeric replay environment
# --------------------------------------------------------------------------------------


class NumEnv:
    def __init__(self, contract, inst, leaves, treedef, arr_idx, in_sids, fn, out_tree, out_static):
        self.contract, self.inst = contract, inst
        self.leaves, self.treedef, self.arr_idx, self.in_sids = leaves, treedef, arr_idx, in_sids
        self.fn, self.out_tree, self.out_static = fn, out_tree, out_static
        self.cache = {}

    def point(self, seed):
        rng = np.random.default_rng(seed)
        args, kwargs = self.inst.make(rng)
        leaves, treedef, arr_idx = split_leaves((args, kwargs))
        arrays = [np.asarray(leaves[i]) for i in arr_idx]
        return arrays

    def env_from(self, arrays, seed=0, preset=None):
        env = dict(preset or {})
        for a, sids in zip(arrays, self.in_sids):
            if sids is None:
                continue
            for ix in np.ndindex(*sids.shape):
                if sids[ix] >= 0:
                    env[int(sids[ix])] = float(np.asarray(a)[ix])
        self._complete(env, seed)
        return env

    def _complete(self, env, seed):
        rng = np.random.default_rng(seed + 12345)
        rec_of = {}
        for rec in prims.CALL_LOG:
            for sids in rec["out_sids"]:
                for s in np.asarray(sids).reshape(-1):
                    if s >= 0:
                        rec_of[int(s)] = rec
        done_recs = set()
        for sid in range(len(P.SYMS)):
            if sid in env:
                continue
            info = P.SYMS[sid]
            if info["kind"] == "atom":
                env[sid] = self._atom(info, env)
                continue
            rec = rec_of.get(sid)
            if rec is None:
                # an input symbol not bound by the instance (e.g. havoc) -> random
                env[sid] = float(rng.normal())
                continue
            if id(rec) in done_recs:
                continue
            done_recs.add(id(rec))
            if rec["native"] is None:
                for sids in rec["out_sids"]:
                    for s in np.asarray(sids).reshape(-1):
                        if s >= 0 and int(s) not in env:
                            env[int(s)] = float(rng.choice([-1.0, 1.0])) if P.SYMS[int(s)]["kind"] == "rademacher" else float(rng.normal())
                continue
            ops = [self.evalf_array(o, env) for o in rec["operands"]]
            outs = rec["native"](*ops)
            for sids, o in zip(rec["out_sids"], outs):
                o = np.asarray(o, dtype=np.float64).reshape(np.shape(sids))
                for ix in np.ndindex(*np.shape(sids)):
                    if sids[ix] >= 0:
                        env[int(sids[ix])] = float(o[ix])
        return env

    def _atom(self, info, env):
        kind = info["atom"]
        args = info.get("args", ())
        ev = lambda v: v.p.evalf(env)
        if kind == "sqrt":
            return float(np.sqrt(max(ev(args[0]), 0.0)))
        if kind == "abs":
            return abs(ev(args[0]))
        if kind == "inv":
            with np.errstate(divide="ignore", invalid="ignore"):
                return float(np.float64(1.0) / np.float64(ev(args[0])))  # 1/0 = inf: guarded divisions select it away
        if kind == "ite":
            return ev(args[1]) if self.evalb(args[0], env) else ev(args[2])
        if kind == "max":
            return max(ev(args[0]), ev(args[1]))
        if kind == "min":
            return min(ev(args[0]), ev(args[1]))
        if kind == "sign":
            return float(np.sign(ev(args[0])))
        if kind == "pow":
            return float(ev(args[0]) ** ev(args[1]))
        if kind == "exp":
            return float(np.exp(ev(args[0])))
        if kind == "log":
            return float(np.log(ev(args[0])))
        if kind == "ceil":
            return float(np.ceil(ev(args[0])))
        if kind == "floor":
            return float(np.floor(ev(args[0])))
        if kind == "inf":
            return float("inf")
        if kind == "poison":
            return float("nan")
        if kind == "lgamma_int":
            import math

            return math.lgamma(info["k"])
        raise RuntimeError(f"cannot evaluate atom {kind}")

    def evalb(self, b: B, env):
        op = b.op
        if op == "const":
            return b.args[0]
        if op == "lt":
            return b.args[0].p.evalf(env) < 0
        if op == "le":
            return b.args[0].p.evalf(env) <= 0
        if op == "eq":
            return b.args[0].p.evalf(env) == 0
        if op == "not":
            return not self.evalb(b.args[0], env)
        if op == "and":
            return all(self.evalb(a, env) for a in b.args)
        if op == "or":
            return any(self.evalb(a, env) for a in b.args)
        return True

    def evalf_array(self, o, env):
        if not interp.is_obj(o):
            return np.asarray(o)
        out = np.empty(o.shape, dtype=np.float64)
        for ix in np.ndindex(*o.shape):
            x = o[ix]
            out[ix] = x.p.evalf(env) if isinstance(x, V) else float(self.evalb(x, env))
        return out

    def native_run(self, arrays):
        with _native_mode():
            a, k = rebuild(self.leaves, self.treedef, self.arr_idx, [jnp.asarray(x) for x in arrays])
            out = self.fn(*a, **k)
        return out, (a, k)

    def selfcheck(self, sym_outs, seed, npoints=2):
        worst = 0.0
        for k in range(npoints):
            arrays = self.point(seed + 1000 * (k + 1))
            env = self.env_from(arrays, seed + k)
            out, _ = self.native_run(arrays)
            nat = [np.asarray(l, dtype=np.float64) for l in jax.tree_util.tree_leaves(out) if _is_arraylike(l)]
            for so, no in zip(sym_outs, nat):
                sv = self.evalf_array(so, env)
                if sv.shape != no.shape:
                    return {"mismatch": f"shape {sv.shape} vs {no.shape}"}
                if not np.all(np.isfinite(no)):
                    continue
                err = float(np.max(np.abs(sv - no) / (1.0 + np.abs(no)))) if no.size else 0.0
                worst = max(worst, err)
        out = {"points": npoints, "max_rel_err": worst}
        if worst > 1e-6:
            out["mismatch"] = f"symbolic vs native outputs differ by {worst:.3e}"
        return out


# --------------------------------------------------------------------------------------
# discharge
# --------------------------------------------------------------------------------------


def _implied(path_a, path_ob):
    keys = {b.key() for b in path_ob}
    return all(b.key() in keys for b in path_a)


def discharge(ctx: interp.Ctx, contract: Contract, res: Result, numenv: NumEnv, seed: int):
    eq_assm = [a for a in ctx.assumptions if a["kind"] == "eq"]
    bool_assm = [a for a in ctx.assumptions if a["kind"] == "bool"]
    # atom hypotheses are always available
    atom_h = [{"name": nm, "kind": "eq", "fact": v, "path": [], "origin": "atom"} for nm, v in P.ATOM_HYPS]
    proven_lemmas = []
    res.assumptions_used = len(ctx.assumptions)
    backend = res.by_backend
    identities = []  # (ob, how, goal V, used [(hyp, mult)])
    _PROVERS.clear()
    fallback_budget = [FALLBACK_BUDGET]
    for ob in ctx.obligations:
        side = ob.get("side")
        # a precondition without free symbols, or one about a static argument (clause name "static:...", e.g. which
        # solver is passed), is not a condition on the inputs: it is decided here, never inherited
        closed = (ob["kind"] == "bool" and ob["goal"].is_const()) or ".requires.static:" in ob["name"]
        if side in ("kernel-precondition", "callee-precondition") and any(s in ob["name"] for s in contract.inherits) and not closed:
            res.inherited.append(ob["name"])
            continue
        res.obligations += 1
        ok, how, detail = _discharge_one(ob, ctx, eq_assm + atom_h + proven_lemmas, bool_assm, res, identities, fallback_budget)
        if ok:
            res.discharged += 1
            res.proved_names.add(ob["name"])
            if how is not None:
                backend[how] = backend.get(how, 0) + 1
            if ob["kind"] == "eq" and contract.lemma_order and not ob["path"] and not ob["goal"].p.is_zero():
                proven_lemmas.append({"name": "lemma:" + ob["name"], "kind": "eq", "fact": ob["goal"], "path": [], "origin": "proven"})
            if len(res.samples) < 3 and detail:
                res.samples.append(detail)
        else:
            entry = {"obligation": ob["name"], "kind": ob["kind"], "reason": how, "detail": detail}
            tri = triage(ob, numenv, seed, detail=detail, requires=[a for a in ctx.assumptions if a.get('origin') == 'requires'], assumptions=ctx.assumptions)
            entry.update(tri)
            if tri.get("holds_numerically") is None:
                smt_det = detail if isinstance(detail, dict) else {}
                smt_det = smt_det.get("smt", smt_det) if isinstance(smt_det.get("smt", None), dict) else smt_det
                refuted = smt_det.get("z3") == "sat" or smt_det.get("cvc5") == "sat"
                entry["holds_numerically"] = not refuted
                (res.failed if refuted else res.undecided).append(entry)
            elif tri.get("holds_numerically"):
                res.undecided.append(entry)
            else:
                res.failed.append(entry)
    # vacuity guard: the assumptions (requires, contracts, loop hypotheses) must not be contradictory
    if bool_assm:
        em = smt.Emitter()
        asserts = []
        for a in bool_assm:
            t = em.bool_term(a["fact"])
            cond = _path_term(em, a["path"])
            asserts.append(f"(assert (=> {cond} {t})) ; {a['name']}" if cond else f"(assert {t}) ; {a['name']}")
        r, dt, _ = smt.run_z3(em.text(asserts), 10.0)
        res.solver_s["z3"] = res.solver_s.get("z3", 0.0) + dt
        res.selfcheck["assumptions_satisfiable"] = r
        if r == "unsat":
            res.error = "checker-error: the boolean assumptions of this verification unit are contradictory (vacuous proof)"
    # one batched solver query re-checks every certificate of this function instance
    if identities:
        ok, det = _smt_identities(identities, res)
        for item in identities:
            how = item[1]
            key = how + ("+smt" if ok else "")
            backend[key] = backend.get(key, 0) + 1
        det = dict(det)
        det["batched_identities"] = len(identities)
        det["first_obligation"] = identities[0][0]["name"]
        res.samples.insert(0, det)
        if det.get("z3") == "sat" or det.get("cvc5") == "sat":
            # the solvers refute an identity the normaliser accepted: checker error, never a pass
            res.error = f"checker-error: solver refutes a certificate identity ({det.get('z3')}, {det.get('cvc5')})"


FALLBACK_BUDGET = float(os.environ.get("VC_FALLBACK_BUDGET", "20"))
_PROVERS: dict = {}


def _discharge_one(ob, ctx, eq_assm, bool_assm, res, identities, fallback_budget):
    if ob["kind"] == "eq":
        g: V = ob["goal"]
        if g.p.is_zero():
            identities.append((ob, "nf-identity", g, []))
            return True, None, None
        if ob.get("hint"):
            # explicit certificate over obligations proved earlier in this unit (left cancellation)
            rest = g.p
            used = []
            for hname, hv, mult in ob["hint"]:
                if hname not in res.proved_names:
                    rest = None
                    break
                rest = rest - mult * hv.p
                used.append(({"name": "lemma:" + hname, "fact": hv}, mult))
            if rest is not None and rest.is_zero():
                identities.append((ob, "certificate(cancellation-hint)", g, used))
                return True, None, None
        hyps = [a for a in eq_assm if _implied(a["path"], ob["path"]) and a["fact"] is not g]
        pkey = tuple(b.key() for b in ob["path"])
        entry = _PROVERS.get(pkey)
        if entry is None or entry[1][: len(entry[1])] != [id(a) for a in hyps][: len(entry[1])] or len(entry[1]) > len(hyps):
            prover = cert.Prover([a["fact"].p for a in hyps])
            entry = (prover, [id(a) for a in hyps])
            _PROVERS[pkey] = entry
        else:
            prover, ids = entry
            for a in hyps[len(ids) :]:
                prover.add(a["fact"].p)
                ids.append(id(a))
        prover = entry[0]
        okc, mult, rem, strategy = prover.prove(g.p)
        if okc:
            used = [(hyps[i], m) for i, m in mult.items()]
            identities.append((ob, f"certificate{strategy}", g, used))
            return True, None, None
        # inverse atoms r = 1/p of non-monomials: clear denominators (p != 0) and try again
        g2, factors = cert.clear_inverses(g.p)
        if factors:
            okc, mult, rem2, strategy = prover.prove(g2)
            if okc:
                used = [(hyps[i], m) for i, m in mult.items()]
                identities.append((ob, f"certificate{strategy}/cleared", g, used, (g2, factors)))
                return True, None, None
        # fall back to SMT with all hypotheses (small scalar goals), within a per-function budget
        det = {"skipped": "fallback budget exhausted"}
        if fallback_budget[0] > 0:
            t0 = time.time()
            ok, det = _smt_entail(B("eq", g), ob, eq_assm, bool_assm, res, timeout=min(5.0, fallback_budget[0]))
            fallback_budget[0] -= time.time() - t0
            if ok:
                return True, "smt", det
        return False, "no-certificate", {"remainder_terms": len(rem.t), "remainder": repr(rem)[:400], "smt": det}
    else:
        b: B = ob["goal"]
        if b.is_const():
            if b.value():
                return True, "syntactic", None
            return False, "constant-false", None
        ok, det = _smt_entail(b, ob, eq_assm, bool_assm, res)
        if ok:
            return True, "smt", det
        return False, "smt-not-unsat", det


def _smt_identities(identities, res):
    em = smt.Emitter()
    parts = []
    for item in identities:
        ob, how, g, used = item[:4]
        gt = em.need_v(g)
        if len(item) > 4:  # denominators cleared: check  g * prod p^K == g'  (mod r p = 1) and g' == sum m h
            g2, factors = item[4]
            g2t = em.need_poly(g2)
            fs = []
            for sid, p, K in factors:
                pt = em.need_poly(p)
                em.need_sym(sid)
                fs += [pt] * K
            parts.append(f"(not (= (* {gt} {' '.join(fs)}) {g2t}))")
            gt = g2t
        terms = []
        for hyp, m in used:
            ht = em.need_v(hyp["fact"])
            mt = em.need_poly(m)
            terms.append(f"(* {mt} {ht})")
        total = f"(+ {' '.join(terms)})" if len(terms) > 1 else (terms[0] if terms else "0.0")
        parts.append(f"(not (= {gt} {total}))")
    body = parts[0] if len(parts) == 1 else "(or " + " ".join(parts) + ")"
    text = em.text([f"(assert {body})"])
    return _run_solvers(text, res, timeout=IDENTITY_TIMEOUT)


IDENTITY_TIMEOUT = float(os.environ.get("VC_IDENTITY_TIMEOUT", "10"))


def _smt_identity(g: V, used, extra, res):
    """Check  g - sum m_i*h_i == 0  as an identity (atom axioms only)."""
    em = smt.Emitter()
    gt = em.need_v(g)
    terms = []
    for hyp, m in used:
        ht = em.need_v(hyp["fact"])
        mt = em.need_poly(m)
        terms.append(f"(* {mt} {ht})")
    total = f"(+ {' '.join(terms)})" if len(terms) > 1 else (terms[0] if terms else "0.0")
    text = em.text([f"(assert (not (= {gt} {total})))"])
    return _run_solvers(text, res)


def _run_solvers(text, res, want_model=False, timeout=None):
    r, dt, model = smt.run_z3(text, timeout or Z3_TIMEOUT, want_model=want_model)
    res.solver_s["z3"] = res.solver_s.get("z3", 0.0) + dt
    det = {"z3": r, "z3_s": round(dt, 3)}
    if r == "sat" and want_model:
        det["model"] = model
    ok = r == "unsat"
    if USE_CVC5 and r != "sat" and (CVC5_MODE == "always" or r != "unsat"):
        r2, dt2, _ = smt.run_cvc5(text, timeout or CVC5_TIMEOUT)
        res.solver_s["cvc5"] = res.solver_s.get("cvc5", 0.0) + dt2
        det["cvc5"] = r2
        det["cvc5_s"] = round(dt2, 3)
        if r2 == "unsat":
            ok = True
        if r2 == "sat" and r == "unsat":
            det["disagreement"] = True
            ok = False
    if len(text) < 6000:
        det["smt2"] = text
    return ok, det


def _smt_entail(goal: B, ob, eq_assm, bool_assm, res, want_model=True, timeout=None):
    em = smt.Emitter()
    asserts = []
    for a in eq_assm:
        if a["fact"].p.is_zero() or a.get("origin") == "atom":
            continue  # atom definitions are emitted (guarded by the divisor being non-zero) by the Emitter
        t = em.need_v(a["fact"])
        cond = _path_term(em, a["path"])
        asserts.append(f"(assert (=> {cond} (= {t} 0.0))) ; {a['name']}" if cond else f"(assert (= {t} 0.0)) ; {a['name']}")
    for a in bool_assm:
        t = em.bool_term(a["fact"])
        cond = _path_term(em, a["path"])
        asserts.append(f"(assert (=> {cond} {t})) ; {a['name']}" if cond else f"(assert {t}) ; {a['name']}")
    for nm, f in P.FACTS:
        pass
    for b in ob["path"]:
        asserts.append(f"(assert {em.bool_term(b)}) ; path")
    asserts.append(f"(assert (not {em.bool_term(goal)})) ; goal {ob['name']}")
    text = em.text(asserts)
    return _run_solvers(text, res, want_model=want_model, timeout=timeout)


def _path_term(em, path):
    if not path:
        return None
    ts = [em.bool_term(b) for b in path]
    return ts[0] if len(ts) == 1 else f"(and {' '.join(ts)})"


def triage(ob, numenv: NumEnv, seed, npoints=6, detail=None, requires=(), assumptions=()):
    """Evaluate a failed goal at the solver's counter-model (if any) and at random points on the
    variety (kernel outputs computed natively)."""
    worst = 0.0
    witness = None
    model = None
    valid_points = 0
    model_error = None
    if isinstance(detail, dict):
        model = detail.get("model") or (detail.get("smt") or {}).get("model") if isinstance(detail.get("smt"), dict) or detail.get("model") else None
    try:
        if model:
            arrays = [np.array(a, dtype=np.float64, copy=True) if np.asarray(a).dtype.kind == "f" else np.asarray(a) for a in numenv.point(seed + 5)]
            hit = False
            for a, sids in zip(arrays, numenv.in_sids):
                if sids is None:
                    continue
                for ix in np.ndindex(*sids.shape):
                    key = f"s{int(sids[ix])}"
                    if key in model and isinstance(model[key], float):
                        a[ix] = model[key]
                        hit = True
            if hit:
                env = numenv.env_from(arrays, seed)
                bad = (not numenv.evalb(ob["goal"], env)) if ob["kind"] == "bool" else abs(ob["goal"].p.evalf(env)) > 1e-7
                if bad and (not ob["path"] or all(numenv.evalb(b, env) for b in ob["path"])):
                    witness = {"inputs": [np.asarray(a).tolist() for a in arrays], "from": "solver-model"}
                    return {"numeric_worst": 1.0, "holds_numerically": False, "witness": witness}
            # the counter-model may live in the arbitrary state of a loop rule (havoc symbols): take those values
            # from the model as well, recompute every kernel / callee output natively, and accept the point only
            # if every assumption of the verification unit holds there (then the VC is refuted at a concrete point)
            free = {}
            uf_recs = [rec for rec in prims.CALL_LOG if rec["name"].split("::")[0] in ("uf", "ufdt") or rec["name"].startswith("ufjac")]
            for rec in prims.CALL_LOG:
                if rec["native"] is None or rec in uf_recs:
                    for sids in rec["out_sids"]:
                        for sid in np.asarray(sids).reshape(-1):
                            key = f"s{int(sid)}"
                            if sid >= 0 and key in model and isinstance(model[key], float):
                                free[int(sid)] = model[key]
            if free:
                env = numenv.env_from(arrays, seed, preset=free)
                bad = (not numenv.evalb(ob["goal"], env)) if ob["kind"] == "bool" else abs(ob["goal"].p.evalf(env)) > 1e-7
                applicable = [a for a in assumptions if _implied(a["path"], ob["path"])]
                if bad and (not ob["path"] or all(numenv.evalb(b, env) for b in ob["path"])) and _requires_hold(applicable, numenv, env):
                    witness = {"inputs": [np.asarray(a).tolist() for a in arrays], "from": "solver-model (includes values of uninterpreted functions / the arbitrary state of a loop rule)",
                               "internal_state": {P.SYMS[k]["name"]: v for k, v in list(free.items())[:40]}, "internal": True}
                    # values the model gives to uninterpreted functions: a table that a concrete smooth function can interpolate
                    table, consistent = [], True
                    for rec in uf_recs:
                        part, nm = rec["name"].split("::", 1)
                        args = [np.asarray(numenv.evalf_array(o, env), dtype=np.float64) for o in rec["operands"]]
                        sids = np.asarray(rec["out_sids"][0])
                        out = np.vectorize(lambda sd: env[int(sd)])(sids) if sids.size else np.zeros(sids.shape)
                        for e in table:
                            if e["part"] == part and e["name"] == nm and all(np.allclose(a, b, rtol=0, atol=1e-12) for a, b in zip(e["args"], args)) and not np.allclose(e["out"], out, atol=1e-9):
                                consistent = False  # same argument, different value: not a function
                        table.append({"part": part, "name": nm, "args": [a.tolist() for a in args], "out": np.asarray(out, dtype=np.float64).tolist()})
                    if consistent:
                        if table and not any(rec["native"] is None for rec in prims.CALL_LOG):
                            witness["uf_table"] = table
                            witness["internal"] = False
                        return {"numeric_worst": 1.0, "holds_numerically": False, "witness": witness}
    except Exception as e:
        model_error = repr(e)[:300]
    try:
        for k in range(npoints):
            # the sample points are the same for every obligation of a unit: evaluate the kernels natively once
            ck = ("triage", seed + 77 * (k + 1), seed + k)
            cached = numenv.cache.get(ck)
            if cached is None:
                arrays = numenv.point(seed + 77 * (k + 1))
                env = numenv.env_from(arrays, seed + k)
                numenv.cache[ck] = (arrays, env)
            else:
                arrays, env = cached
            if ob["path"] and not all(numenv.evalb(b, env) for b in ob["path"]):
                continue
            if not _requires_hold(requires, numenv, env):
                continue  # the sampled point is outside the precondition: says nothing about the goal
            valid_points += 1
            if ob["kind"] == "eq":
                g = ob["goal"].p
                val = g.evalf(env)
                scale = 1.0 + sum(abs(float(c)) * abs(Poly_term(m, env)) for m, c in list(g.t.items())[:2000])
                rel = abs(val) / scale
                if rel > worst:
                    worst = rel
                    if rel > 1e-7:
                        witness = {"inputs": [np.asarray(a).tolist() for a in arrays], "residual": val, "relative": rel, "seed": seed + 77 * (k + 1)}
            else:
                if not numenv.evalb(ob["goal"], env):
                    worst = 1.0
                    witness = {"inputs": [np.asarray(a).tolist() for a in arrays], "seed": seed + 77 * (k + 1)}
            if witness:
                break
    except Exception as e:
        # no native evaluation possible (e.g. abstract stubs without native semantics): the caller decides from the
        # solver verdict alone -- a solver counter-model refutes the VC, anything else leaves it undecided
        return {"triage_error": repr(e)[:300], "holds_numerically": None, "numeric_worst": None}
    out = {"numeric_worst": worst, "holds_numerically": witness is None and worst < 1e-7, "points_inside_precondition": valid_points}
    if model_error:
        out["solver_model_could_not_be_evaluated"] = model_error
    if witness:
        out["witness"] = witness
    return out


def _requires_hold(requires, numenv, env, tol=1e-7):
    for a in requires:
        try:
            if a["kind"] == "eq":
                if abs(a["fact"].p.evalf(env)) > tol * (1.0 + sum(abs(float(c)) for c in list(a["fact"].p.t.values())[:50])):
                    return False
            elif not numenv.evalb(a["fact"], env):
                return False
        except Exception:
            return False
    return True


def Poly_term(m, env):
    v = 1.0
    for s, e in m:
        v *= env[s] ** e
    return v


# --------------------------------------------------------------------------------------
# native confirmation / replay of a failed obligation
# --------------------------------------------------------------------------------------


def _clause_of(obligation_name):
    nm = obligation_name
    if nm.startswith("ensures."):
        nm = nm[len("ensures.") :]
    return nm.split("[")[0]


def native_clauses(contract: Contract, inst: Instance, seed, inputs=None):
    owner, attr, target = contract.resolve()
    fn = contract.wrap(target) if contract.wrap else target
    rng = np.random.default_rng(seed)
    args, kwargs = inst.make(rng)
    if inputs is not None:
        leaves, treedef, arr_idx = split_leaves((args, kwargs))
        args, kwargs = rebuild(leaves, treedef, arr_idx, [jnp.asarray(np.asarray(x), dtype=np.asarray(leaves[i]).dtype) for x, i in zip(inputs, arr_idx)])
    with _native_mode():
        out = fn(*args, **kwargs)
        cl = contract.ensures(out, *args, **kwargs)
    mag = 1.0
    for l in jax.tree_util.tree_leaves((out, args, kwargs)):
        if _is_arraylike(l) and np.asarray(l).dtype.kind == "f" and np.asarray(l).size:
            mag = max(mag, float(np.max(np.abs(np.asarray(l)))))
    return [(c.name, c.kind, np.asarray((jnp.asarray(c.lhs) - c.value) if c.kind == "def" else c.value)) for c in cl], mag, (args, kwargs), out


def confirm_native(contract: Contract, inst: Instance, failure: dict, seed, npoints=8):
    """Run the real, unpatched function on concrete inputs and evaluate the failed clause natively."""
    if failure["obligation"] == "ensures.returns_normally_inside_precondition":
        return {"violated": bool(failure.get("native_confirmed")), "native_exception": failure.get("native_exception"), "input_seed": seed, "note": "the real function raises on the instance's native example (inputs: Instance.make(default_rng(seed)))"}
    if not failure["obligation"].startswith("ensures."):
        return {"violated": False, "note": "call-site / kernel precondition: no native clause to evaluate"}
    cname = _clause_of(failure["obligation"])
    seeds = []
    last_error = None
    w = failure.get("witness")
    if w and "inputs" in w:
        seeds.append(("inputs", w["inputs"]))
    if w and "seed" in w:
        seeds.append(int(w["seed"]))
    seeds += [seed + 101 * (k + 1) for k in range(npoints)]
    for s in seeds:
        try:
            if isinstance(s, tuple):
                if w.get("uf_table"):
                    if any(("uf", e["name"]) not in prims.UF_NATIVE for e in w["uf_table"]):
                        native_clauses(contract, inst, seed)  # dry run: registers the uninterpreted functions of the instance
                    with prims.uf_interpolant(w["uf_table"]):
                        clauses, mag, (args, kwargs), out = native_clauses(contract, inst, seed, inputs=s[1])
                else:
                    clauses, mag, (args, kwargs), out = native_clauses(contract, inst, seed, inputs=s[1])
                s = "solver-model"
            else:
                clauses, mag, (args, kwargs), out = native_clauses(contract, inst, s)
        except Exception as e:
            last_error = repr(e)[:300]
            continue
        for nm, kind, val in clauses:
            if nm != cname:
                continue
            tol = contract.native_tol * mag * mag
            if kind in ("eq", "def"):
                bad = float(np.max(np.abs(val))) if val.size else 0.0
                viol = bad > tol
            elif kind == "ge":
                bad = float(-np.min(val)) if val.size else 0.0
                viol = bad > tol
            elif kind == "gt":
                bad = float(-np.min(val)) if val.size else 0.0
                viol = not np.all(val > 0)
            else:
                bad = float(np.sum(~val.astype(bool)))
                viol = bad > 0
            if viol:
                leaves = [np.asarray(l).tolist() for l in jax.tree_util.tree_leaves((args, kwargs)) if _is_arraylike(l)]
                return {
                    "violated": True,
                    "clause": nm,
                    "kind": kind,
                    "input_seed": s,
                    "inputs": leaves,
                    "clause_value(lhs-rhs)": val.tolist(),
                    "max_violation": bad,
                    "tolerance": tol,
                    "outputs": [np.asarray(l).tolist() for l in jax.tree_util.tree_leaves(out) if _is_arraylike(l)],
                }
    return {"violated": False, "points_tried": len(seeds), **({"last_native_error": last_error} if last_error else {})}


def all_contracts(mod):
    """The contracts a property module lists plus, transitively, the contracts of every callee they assume at call
    sites: a property check also discharges the 'home proofs' of what it relies on, so that a change inside a
    callee fails the callee's own postcondition in the same run."""
    out, stack = {}, list(mod.contracts())
    while stack:
        c = stack.pop(0)
        if c.name in out:
            continue
        out[c.name] = c
        stack.extend(c.callees)
        stack.extend(c.premises)
    return list(out.values())


def lookup_contract(mod, name):
    """A contract of the property module (or of a callee it assumes), or the delegation contract of a backend wrapper."""
    table = {c.name: c for c in all_contracts(mod)}
    if name not in table:
        from contracts import backend

        table.update(backend.by_name())
    return table[name]


def replay(path):
    import importlib

    data = json.load(open(path))
    pid = data["property"]
    mod = importlib.import_module(f"props.{pid}")
    if hasattr(mod, "replay") and data.get("contract", "").startswith("extra:"):
        return mod.replay(data)
    contract = lookup_contract(mod, data["contract"])
    inst = {i.name: i for i in contract.instances(data.get("tier", "quick"))}[data["instance"]]
    print(f"replaying {data['contract']} [{data['instance']}] obligation {data['failed_obligation']}")
    nat = data.get("native_replay") or {}
    seed = nat.get("input_seed", data.get("seed", 0))
    if seed == "solver-model":
        # the failing input is the solver's counter-model (inputs + values of uninterpreted functions, interpolated
        # by a concrete smooth function): recorded in the triage witness
        witness = dict((data.get("numeric_triage") or {}).get("witness") or {})
        witness.pop("seed", None)
    else:
        witness = {"seed": seed}
    out = confirm_native(contract, inst, {"obligation": data["failed_obligation"], "witness": witness}, data.get("seed", 0))
    print(json.dumps({k: v for k, v in out.items() if k != "inputs"}, indent=1, default=str)[:3000])
    if out.get("violated"):
        print(f"VIOLATION property={pid} replay={path}")
        return 1
    print("no failing input reproduced natively (the obligation failed deductively; see verifier_output in the replay file)")
    return 1 if data.get("failed_obligation") else 0


# --------------------------------------------------------------------------------------
# in-trace markers and the loop rules (Hoare rules executed at trace time)
# --------------------------------------------------------------------------------------

PENDING: list = []  # (mode 'assert'|'assume', name, kind, traced value)


def assert_now(prefix, clauses):
    for c in clauses:
        v = (jnp.asarray(c.lhs) - c.value) if c.kind == "def" else c.value
        PENDING.append(("assert", f"{prefix}.{c.name}", "eq" if c.kind == "def" else c.kind, v))


def assume_now(prefix, clauses):
    for c in clauses:
        v = (jnp.asarray(c.lhs) - c.value) if c.kind == "def" else c.value
        PENDING.append(("assume", f"{prefix}.{c.name}", "eq" if c.kind == "def" else c.kind, v))


def _havoc_handler(ctx, prm, *ops):
    tag, avals = prm["static"]
    outs = []
    for k, (shape, kind) in enumerate(avals):
        cid = prims._count("havoc")
        if kind == "b":
            arr = np.empty(shape, dtype=object)
            for ix in np.ndindex(*shape):
                arr[ix] = B("var", f"{tag}.{k}{list(ix)}#{cid}")
            sids = np.full(shape, -1, dtype=np.int64)
        else:
            arr, sids = prims.fresh_array(tuple(shape), f"{tag}.{k}#{cid}", kind="havoc")
        outs.append(arr)
        prims.CALL_LOG.append({"name": "havoc", "operands": [], "out_sids": [sids], "native": None})
    return outs


prims.BASE_HANDLERS["havoc"] = _havoc_handler
_HAVOC_COUNTER = [0]


def havoc_like(tree, tag):
    """Fresh, unconstrained values with the pytree structure / shapes of ``tree``."""
    tree = jax.tree_util.tree_map(lambda x: jnp.asarray(x, dtype=jnp.float64 if isinstance(x, float) else None) if isinstance(x, (bool, int, float)) else x, tree)
    leaves, treedef, arr_idx = split_leaves(tree)
    arrays = [jnp.asarray(leaves[i]) for i in arr_idx]
    _HAVOC_COUNTER[0] += 1
    avals = tuple((tuple(a.shape), "b" if a.dtype == jnp.bool_ else "f") for a in arrays)
    sds = [jax.ShapeDtypeStruct(a.shape, a.dtype) for a in arrays]
    # the counter makes every havoc distinct (no memoisation across calls)
    outs = prims.bind_opaque("havoc", [], sds, static=(f"{tag}@{_HAVOC_COUNTER[0]}", avals))
    return rebuild(leaves, treedef, arr_idx, outs)


def _same_tree(prefix, a, b):
    return [eq(f"{prefix}{k}", x, y) for k, (x, y) in enumerate(zip(jax.tree_util.tree_leaves(a), jax.tree_util.tree_leaves(b)))]


def hoare_while(inv, name="loop", keep=None, ghost_init=None, ghost_step=None, expose=None):
    """Replacement for ``while_loop(cond, body, init)`` implementing the Hoare rule at trace time.

    ``inv(init, state, ghost) -> list[Clause]``.  Emits: Inv(init, init, ghost0); then for an
    arbitrary state (only the fields not protected by the modifies-clause ``keep`` are arbitrary)
    with Inv and the guard: one symbolic execution of the *real* body, the frame condition, and
    Inv of its result with the updated ghost; returns an arbitrary state satisfying Inv and the
    negated guard.  Termination is not claimed.
    """

    def while_loop(cond_fun, body_fun, init=None, **kw):
        if init is None:
            init = kw.pop("init_val")
        g0 = ghost_init(init) if ghost_init else None
        assert_now(f"{name}.inv_init", inv(init, init, g0))
        s = havoc_like(init, f"{name}.any")
        if keep:
            s = keep(init, s)
        g = havoc_like(g0, f"{name}.ghost") if g0 is not None else None
        assume_now(f"{name}.hyp", inv(init, s, g))
        assume_now(f"{name}.hyp", [holds("guard", cond_fun(s))])
        s1 = body_fun(s)
        if keep:
            assert_now(f"{name}.frame", _same_tree("unmodified", keep(init, s1), s1))
        g1 = ghost_step(init, s, g, s1) if ghost_step else None
        assert_now(f"{name}.inv_preserved", inv(init, s1, g1))
        s2 = havoc_like(init, f"{name}.exit")
        if keep:
            s2 = keep(init, s2)
        g2 = havoc_like(g0, f"{name}.ghost_exit") if g0 is not None else None
        assume_now(f"{name}.exit", inv(init, s2, g2))
        assume_now(f"{name}.exit", [holds("not_guard", jnp.logical_not(cond_fun(s2)))])
        if expose is not None:
            expose(init, s2, g2)
        return s2

    return while_loop


def hoare_scan(inv, name="scan", ghost_init=None, ghost_step=None, x_hyp=None, step_post=None, on_step=None, keep=None, last_rel=None):
    """Replacement for ``scan(f, init, xs)`` (induction over the sequence): Inv(init, init, ghost0); for
    an arbitrary carry/ghost with Inv and an arbitrary element x with ``x_hyp(ghost, x)``: one symbolic
    execution of the *real* body, Inv of the new carry with the updated ghost and ``step_post`` (the
    per-element postcondition, e.g. about the emitted output); returns an arbitrary carry with Inv.
    Outputs: the one symbolic output stacked (shapes only) except the last entry, which is an arbitrary
    value related to the final carry by ``last_rel(carry, y)`` (asserted for every step).
    """

    def scan(step_func, init=None, xs=None, reverse=False, length=None, **kw):
        g0 = ghost_init(init, xs) if ghost_init else None
        assert_now(f"{name}.inv_init", inv(init, init, g0))
        c = havoc_like(init, f"{name}.carry")
        if keep:
            c = keep(init, c)
        g = havoc_like(g0, f"{name}.ghost") if g0 is not None else None
        x0 = jax.tree_util.tree_map(lambda a: a[0], xs)
        x = havoc_like(x0, f"{name}.x")
        assume_now(f"{name}.hyp", inv(init, c, g))
        if x_hyp:
            assume_now(f"{name}.hyp", x_hyp(g, x))
        if on_step:
            on_step(c, g, x)
        c1, y = step_func(c, x)
        if keep:
            assert_now(f"{name}.frame", _same_tree("unmodified", keep(init, c1), c1))
        g1 = ghost_step(g, x) if ghost_step else None
        assert_now(f"{name}.inv_preserved", inv(init, c1, g1))
        if step_post:
            assert_now(f"{name}.element", step_post(c, g, x, c1, y))
        if last_rel:
            assert_now(f"{name}.output_relation", last_rel(c1, y))
        c2 = havoc_like(init, f"{name}.final")
        if keep:
            c2 = keep(init, c2)
        g2 = havoc_like(g0, f"{name}.ghost_final") if g0 is not None else None
        assume_now(f"{name}.exit", inv(init, c2, g2))
        n = jax.tree_util.tree_leaves(xs)[0].shape[0]
        if last_rel:
            y_last = havoc_like(y, f"{name}.last_output")
            assume_now(f"{name}.exit", last_rel(c2, y_last))
            ys = jax.tree_util.tree_map(lambda a, b: jnp.stack([a] * (n - 1) + [b]), y, y_last)
        else:
            ys = jax.tree_util.tree_map(lambda a: jnp.stack([a] * n), y)
        return c2, ys

    return scan
