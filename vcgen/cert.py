"""Certificate search: reduce a goal polynomial modulo hypothesis polynomials.

Every hypothesis h (h == 0) is oriented as a rewrite rule  LM(h) -> -(h - lc*LM)/lc.  Two
strategies are tried:

A. plain: LM is the largest monomial in the lex order induced by symbol creation order (newer
   symbols are larger, so kernel / callee outputs are eliminated in favour of inputs), with the
   hypotheses inter-reduced in creation order (triangularisation, no S-pairs).
B. substitution first: hypotheses that contain a bare non-input symbol linearly (``sym - expr``)
   are turned into substitutions sym := expr (acyclic by construction), applied to all other
   hypotheses and to the goal; then strategy A on what is left.

The reduction records multipliers over the *original* hypotheses, so the result is a certificate
goal == sum_i m_i * h_i (+ remainder), which the SMT solvers then check independently as a polynomial
identity.  The search only ever subtracts multiples of hypotheses: sound by construction, incomplete.
"""

from __future__ import annotations

from fractions import Fraction

from . import poly as P
from .poly import ONE, POWER_RULES, Poly, _mono_mul, _needs_power_reduce, power_reduce


_CORE_CACHE: dict = {}


def core(m):
    """The part of a monomial made of non-unit symbols (units = symbols known > 0, e.g. scalings, dt)."""
    c = _CORE_CACHE.get(m)
    if c is None:
        c = tuple(x for x in m if not _is_unit(x[0]))
        if len(_CORE_CACHE) > 2_000_000:
            _CORE_CACHE.clear()
        _CORE_CACHE[m] = c
    return c


def _is_unit(sid):
    """Units of the Laurent ring: *non-atom* symbols known to be > 0 (scalings, step sizes, scales)."""
    return sid in P.POSITIVE and P.SYMS[sid]["kind"] != "atom"


def _key(m):
    return (core(m), m)


def _divides(lm, m):
    """Return m / lm if core(lm) | core(m); exponents of unit symbols are unrestricted (Laurent)."""
    d = dict(m)
    for s, e in lm:
        have = d.get(s, 0)
        if _is_unit(s):
            r = have - e
        else:
            if have < e:
                return None
            r = have - e
        if r:
            d[s] = r
        else:
            d.pop(s, None)
    return tuple(sorted(d.items(), reverse=True))


def _addmul(acc: dict, q, f, poly: Poly, skip=None):
    """acc += f * q * poly (monomial q, scalar f); applies power rules where needed."""
    for hm, hc in poly.t.items():
        if hm == skip:
            continue
        nm = _mono_mul(q, hm)
        c = f * hc
        if POWER_RULES and _needs_power_reduce(nm):
            rp = power_reduce(Poly({nm: c}))
            for rm, rc in rp.t.items():
                v = acc.get(rm, 0) + rc
                if v:
                    acc[rm] = v
                else:
                    acc.pop(rm, None)
            continue
        v = acc.get(nm, 0) + c
        if v:
            acc[nm] = v
        else:
            acc.pop(nm, None)


class Hyp:
    """A derived hypothesis: poly == sum_i combo[i] * original[i]."""

    __slots__ = ("poly", "combo")

    def __init__(self, poly: Poly, combo: dict):
        self.poly = poly
        self.combo = combo


def _rev_key(m):
    """Monomial key for the reversed symbol ranking (older symbols larger)."""
    return (tuple((-s, e) for s, e in reversed(core(m))), m)


class RuleSet:
    def __init__(self, reverse=False):
        self.rules = []  # (lm, lc, Hyp)
        self.by_lead = {}
        self.reverse = reverse

    def lead(self, p: Poly):
        return max(p.t, key=_rev_key) if self.reverse else max(p.t, key=_key)

    def add(self, lm, hyp: Hyp):
        lc = hyp.poly.t[lm]
        self.rules.append((lm, lc, hyp))
        self.by_lead.setdefault(core(lm)[0][0], []).append((lm, lc, hyp))

    def find(self, m):
        for s, _ in m:
            lst = self.by_lead.get(s)
            if lst:
                for lm, lc, hyp in lst:
                    q = _divides(lm, m)
                    if q is not None:
                        return lm, lc, hyp, q
        return None

    def reduce(self, p: Poly, combo: dict | None = None, max_steps=400000):
        """Reduce p; returns (remainder Poly, combo over original hyps: p - rem == sum combo_i h_i).

        ``combo`` (dict idx -> dict mono->coef) is updated in place with the *negated* multipliers,
        i.e. callers pass the combo of p and get the combo of the remainder.
        """
        work = dict(p.t)
        done = {}
        steps = 0
        track = combo is not None
        # Any processing order terminates (every rewrite replaces a monomial by smaller ones) and is
        # sound; irreducible monomials are accumulated in ``done``.
        while work:
            m, c = work.popitem()
            hit = self.find(m)
            if hit is None:
                v = done.get(m, 0) + c
                if v:
                    done[m] = v
                else:
                    done.pop(m, None)
                continue
            steps += 1
            if steps > max_steps:
                done[m] = done.get(m, 0) + c
                for mm, cc in work.items():
                    done[mm] = done.get(mm, 0) + cc
                break
            lm, lc, hyp, q = hit
            f = c / lc
            _addmul(work, q, -f, hyp.poly, skip=lm)
            if track:
                for i, mp in hyp.combo.items():
                    acc = combo.setdefault(i, {})
                    _addmul(acc, q, -f, mp)
        return Poly({m: c for m, c in done.items() if c})


def _lin_symbol(h: Poly, allowed):
    """Largest symbol that occurs in h only as a bare linear monomial, or None."""
    cands = []
    for m in h.t:
        if len(m) == 1 and m[0][1] == 1 and allowed(m[0][0]):
            cands.append(m[0][0])
    for s in sorted(cands, reverse=True):
        if sum(1 for m in h.t for ss, _ in m if ss == s) == 1:
            return s
    return None


def _is_eliminable(sid):
    return P.SYMS[sid]["kind"] not in ("input",)


def build(hyps: list[Poly], strategy: str):
    """Returns (ruleset, substitution-ruleset or None)."""
    reverse = strategy in ("C", "D")
    if strategy == "C":
        strategy = "A"
    if strategy == "D":
        strategy = "B"
    originals = [Hyp(h, {i: Poly.const(1)}) for i, h in enumerate(hyps)]
    subst = RuleSet()
    rest = originals
    if strategy == "B":
        deps = {}
        chosen = {}
        rest = []

        def reaches(a, b, seen=None):
            seen = seen or set()
            if a == b:
                return True
            for n in deps.get(a, ()):
                if n not in seen:
                    seen.add(n)
                    if reaches(n, b, seen):
                        return True
            return False

        for hyp in originals:
            s = _lin_symbol(hyp.poly, lambda sid: _is_eliminable(sid) and sid not in chosen)
            if s is None:
                rest.append(hyp)
                continue
            others = {ss for m in hyp.poly.t for ss, _ in m if ss != s}
            if any(reaches(o, s) for o in others):
                rest.append(hyp)
                continue
            deps[s] = others
            chosen[s] = hyp
        # apply substitutions to each other (acyclic) in dependency order: a rule's body must be
        # free of substituted symbols before it is installed
        pending = dict(chosen)
        guard = 0
        while pending and guard < 10 * (len(chosen) + 1):
            guard += 1
            for s, hyp in list(pending.items()):
                if any((o in pending) for o in deps[s]):
                    continue
                combo = {i: dict(mp.t) for i, mp in hyp.combo.items()}
                red = subst.reduce(hyp.poly, combo)
                h2 = Hyp(red, {i: Poly(d) for i, d in combo.items()})
                lm = ((s, 1),)
                if lm in h2.poly.t:
                    subst.add(lm, h2)
                else:
                    rest.append(h2)
                del pending[s]
        for s, hyp in pending.items():
            rest.append(hyp)
    rules = RuleSet(reverse=reverse)
    for hyp in rest:
        p = hyp.poly
        combo = {i: dict(mp.t) for i, mp in hyp.combo.items()}
        if strategy == "B" and subst.rules:
            p = subst.reduce(p, combo)
        p = rules.reduce(p, combo)
        if p.is_zero():
            continue
        lm = rules.lead(p)
        cl = core(lm)
        if not cl or any(e < 0 for _, e in cl):
            continue
        if sum(1 for m in p.t if core(m) == cl) > 1:
            continue  # leading core not unique: orientation would not be terminating
        rules.add(lm, Hyp(p, {i: Poly(d) for i, d in combo.items()}))
    return rules, (subst if strategy == "B" else None)


def clear_inverses(g: Poly):
    """Multiply g by powers of the arguments of its inverse atoms r = 1/p so that no r remains:
    returns (g', [(sid of r, p as Poly, K)]) with  g' == g * prod p^K  modulo r*p == 1."""
    factors = []
    for _ in range(8):
        target = None
        for m in g.t:
            for s, e in m:
                info = P.SYMS[s]
                if info["kind"] == "atom" and info.get("atom") == "inv" and e > 0:
                    target = s
                    break
            if target is not None:
                break
        if target is None:
            break
        p = P.SYMS[target]["args"][0].p
        K = max((e for m in g.t for s, e in m if s == target), default=0)
        out = Poly()
        pows = {0: Poly.const(1)}
        for j in range(1, K + 1):
            pows[j] = pows[j - 1] * p
        for m, c in g.t.items():
            j = next((e for s, e in m if s == target), 0)
            rest = tuple((s, e) for s, e in m if s != target)
            out = out + Poly({rest: c}) * pows[K - j]
        g = out
        factors.append((target, p, K))
    return g, factors


STRATEGIES = ("A", "B", "C", "D")


class Prover:
    """Caches rule sets per strategy; hypotheses can be appended incrementally (proven lemmas)."""

    def __init__(self, hyps: list[Poly]):
        self.hyps = list(hyps)
        self._built = {}
        self._built_upto = {}

    def add(self, h: Poly):
        self.hyps.append(h)

    def rules(self, strategy):
        if strategy not in self._built:
            self._built[strategy] = build(self.hyps, strategy)
            self._built_upto[strategy] = len(self.hyps)
        elif self._built_upto[strategy] < len(self.hyps):
            rules, subst = self._built[strategy]
            for i in range(self._built_upto[strategy], len(self.hyps)):
                combo = {i: {ONE: Fraction(1)}}
                p = self.hyps[i]
                if subst is not None and subst.rules:
                    p = subst.reduce(p, combo)
                p = rules.reduce(p, combo)
                if p.is_zero():
                    continue
                lm = rules.lead(p)
                cl = core(lm)
                if not cl or any(e < 0 for _, e in cl):
                    continue
                if sum(1 for m in p.t if core(m) == cl) > 1:
                    continue
                rules.add(lm, Hyp(p, {j: Poly(d) for j, d in combo.items()}))
            self._built_upto[strategy] = len(self.hyps)
        return self._built[strategy]

    def prove(self, goal: Poly):
        """Returns (ok, multipliers {idx: Poly}, remainder, strategy)."""
        best = None
        for strategy in STRATEGIES:
            rules, subst = self.rules(strategy)
            combo: dict = {}
            p = goal
            if subst is not None and subst.rules:
                p = subst.reduce(p, combo)
            rem = rules.reduce(p, combo)
            mult = {i: -Poly({m: c for m, c in d.items() if c}) for i, d in combo.items()}
            mult = {i: m for i, m in mult.items() if not m.is_zero()}
            if rem.is_zero():
                return True, mult, rem, strategy
            if best is None or len(rem.t) < len(best[2].t):
                best = (False, mult, rem, strategy)
        return best
