"""Exact symbolic evaluation of a jaxpr over the reals.

Float-typed values are numpy object arrays of ``poly.V``; integer / boolean values are native
numpy arrays when concrete and object arrays of ``V`` / ``B`` when symbolic.  Data movement is
interpreted by *index tracing*: the real JAX primitive is run on integer position arrays.
Numerical kernels and callees under contract appear as opaque primitives and are dispatched to
``OPAQUE`` handlers (see prims.py / contracts).
"""

from __future__ import annotations

import itertools
import math
from fractions import Fraction

import jax
import jax.numpy as jnp
import numpy as np
from jax import lax
from jax.extend import core as jex_core

from . import poly as P
from .poly import B, V


class Unsupported(Exception):
    pass


# ---------------------------------------------------------------------------------------
# helpers on arrays
# ---------------------------------------------------------------------------------------


def is_obj(x):
    return isinstance(x, np.ndarray) and x.dtype == object


def to_obj(x, kind="V"):
    """Lift a concrete numpy array to an object array of V (or B)."""
    if is_obj(x):
        return x
    a = np.asarray(x)
    out = np.empty(a.shape, dtype=object)
    flat = out.reshape(-1) if a.ndim else None
    if a.ndim == 0:
        out[()] = _lift_scalar(a[()], kind)
        return out
    af = a.reshape(-1)
    for i in range(af.size):
        flat[i] = _lift_scalar(af[i], kind)
    return out


def _lift_scalar(x, kind):
    if kind == "B" or isinstance(x, (bool, np.bool_)):
        if kind == "V":
            return P.as_v(int(x))
        return P.b_const(bool(x))
    return P.as_v(x)


def obj_like(shape):
    return np.empty(shape, dtype=object)


def map_obj(f, *arrs):
    arrs = [a if is_obj(a) else to_obj(a) for a in arrs]
    shape = np.broadcast_shapes(*[a.shape for a in arrs])
    arrs = [np.broadcast_to(a, shape) for a in arrs]
    out = np.empty(shape, dtype=object)
    if shape == ():
        out[()] = f(*[a[()] for a in arrs])
        return out
    of = out.reshape(-1)
    fl = [a.reshape(-1) for a in arrs]
    for i in range(of.size):
        of[i] = f(*[a[i] for a in fl])
    return out


def all_const(a):
    if not is_obj(a):
        return True
    return all(x.is_const() for x in a.reshape(-1))


def concretize(a, dtype):
    """Object array of constant V/B -> native numpy array."""
    out = np.empty(a.shape, dtype=dtype)
    of = out.reshape(-1)
    af = a.reshape(-1)
    for i in range(af.size):
        x = af[i]
        if isinstance(x, B):
            of[i] = x.value()
        else:
            c = x.const_value()
            of[i] = int(c) if np.issubdtype(dtype, np.integer) else (bool(c) if dtype == np.bool_ else float(c))
    return out


def is_float_dtype(dt):
    return jnp.issubdtype(dt, jnp.floating)


# ---------------------------------------------------------------------------------------
# evaluation context
# ---------------------------------------------------------------------------------------


class Ctx:
    """Collects obligations / assumptions raised during evaluation."""

    def __init__(self):
        self.path: list[B] = []  # current path condition (inside symbolic cond branches)
        self.obligations: list[dict] = []  # {name, kind:'eq'|'bool', goal, path, assumptions_idx}
        self.assumptions: list[dict] = []  # {name, kind:'eq'|'bool', fact}
        self.kernel_calls: list[dict] = []
        self.prims_seen: dict[str, int] = {}
        self.num_eqns = 0

    def assume_eq(self, name, v: V, origin="kernel"):
        if v.p.is_zero():
            return
        self.assumptions.append({"name": name, "kind": "eq", "fact": v, "path": list(self.path), "origin": origin})

    def assume_bool(self, name, b: B, origin="kernel"):
        if b.is_const() and b.value():
            return
        self.assumptions.append({"name": name, "kind": "bool", "fact": b, "path": list(self.path), "origin": origin})

    def oblige_eq(self, name, v: V, **meta):
        self.obligations.append(
            {"name": name, "kind": "eq", "goal": v, "path": list(self.path), "n_assm": len(self.assumptions), **meta}
        )

    def oblige_bool(self, name, b: B, **meta):
        self.obligations.append(
            {"name": name, "kind": "bool", "goal": b, "path": list(self.path), "n_assm": len(self.assumptions), **meta}
        )


OPAQUE: dict = {}  # primitive name -> handler(ctx, eqn_params, *inputs) -> list of outputs


# ---------------------------------------------------------------------------------------
# the interpreter
# ---------------------------------------------------------------------------------------


def eval_jaxpr(ctx: Ctx, jaxpr, consts, *args):
    env = {}

    def read(v):
        if isinstance(v, jex_core.Literal):
            return _from_literal(v)
        return env[v]

    for v, c in zip(jaxpr.constvars, consts):
        env[v] = _ingest(c)
    assert len(jaxpr.invars) == len(args), (len(jaxpr.invars), len(args))
    for v, a in zip(jaxpr.invars, args):
        env[v] = a
    for eqn in jaxpr.eqns:
        ctx.num_eqns += 1
        name = eqn.primitive.name
        ctx.prims_seen[name] = ctx.prims_seen.get(name, 0) + 1
        ins = [read(v) for v in eqn.invars]
        outs = eval_eqn(ctx, eqn, ins)
        if not eqn.primitive.multiple_results:
            outs = [outs]
        for v, o in zip(eqn.outvars, outs):
            if type(v).__name__ == "DropVar":
                continue
            try:
                o = _normalise(o, v.aval)
            except Unsupported as e:
                raise Unsupported(f"{e} (result of primitive {name} {dict(eqn.params).get('name', '')})") from None
            env[v] = o
    return [read(v) for v in jaxpr.outvars]


def _from_literal(v):
    return _ingest(v.val, getattr(v, "aval", None))


def _ingest(c, aval=None):
    """Concrete constant -> internal representation."""
    if is_obj(c):
        return c
    a = np.asarray(c)
    if a.dtype == object:
        return a
    if jnp.issubdtype(a.dtype, jnp.floating):
        return to_obj(a)
    if a.dtype.kind not in "iub":
        # prng keys etc.
        return a
    return a


def _normalise(o, aval):
    """Keep representation invariants: floats are object arrays; const ints/bools are native."""
    shape = tuple(aval.shape) if hasattr(aval, "shape") else ()
    dt = getattr(aval, "dtype", None)
    if is_obj(o):
        if dt is not None and not is_float_dtype(dt) and dt.kind in "iub" and all_const(o):
            o = concretize(o, np.dtype(dt))
    else:
        o = np.asarray(o)
        if dt is not None and is_float_dtype(dt):
            o = to_obj(o)
    if tuple(o.shape) != shape:
        raise Unsupported(f"shape mismatch {o.shape} vs aval {shape}")
    return o


# ---- primitive table --------------------------------------------------------------------

DATA_MOVE = {
    # name -> positions of data operands (None = all)
    "slice": [0],
    "squeeze": [0],
    "expand_dims": [0],
    "reshape": [0],
    "transpose": [0],
    "broadcast_in_dim": [0],
    "rev": [0],
    "concatenate": None,
    "pad": [0, 1],
    "dynamic_slice": [0],
    "dynamic_update_slice": [0, 1],
    "gather": [0],
    "scatter": [0, 2],
    "copy": [0],
    "copy_p": [0],
    "split": [0],
    "unstack": [0],
    "stack": None,
    "tile": [0],
    "real": [0],
    "reduce_precision": [0],
    "optimization_barrier": None,
}


def eval_eqn(ctx, eqn, ins):
    name = eqn.primitive.name
    prm = eqn.params

    if name in OPAQUE:
        return OPAQUE[name](ctx, eqn, *ins)

    if name in DATA_MOVE:
        return data_move(eqn, ins, DATA_MOVE[name])

    # integer / boolean computation whose operands are all constants (possibly stored symbolically): make them native
    if name not in CONTROL and name not in CALL_LIKE and any(is_obj(x) for x in ins):
        if all(hasattr(v.aval, "dtype") and v.aval.dtype.kind in "iub" for v in list(eqn.invars) + list(eqn.outvars)) and all((not is_obj(x)) or all_const(x) for x in ins):
            ins = [concretize(x, np.dtype(v.aval.dtype)) if is_obj(x) else x for x, v in zip(ins, eqn.invars)]
    # all-concrete, non-float: run natively
    if all(not is_obj(x) for x in ins) and name not in CONTROL and name not in CALL_LIKE:
        if all(np.asarray(x).dtype.kind in "iub" for x in ins) and all(
            ov.aval.dtype.kind in "iub" for ov in eqn.outvars if hasattr(ov.aval, "dtype")
        ):
            with jax.ensure_compile_time_eval():
                out = eqn.primitive.bind(*[jnp.asarray(x) for x in ins], **prm)
            if eqn.primitive.multiple_results:
                return [np.asarray(o) for o in out]
            return np.asarray(out)

    h = HANDLERS.get(name)
    if h is None:
        raise Unsupported(f"primitive '{name}' (params {list(prm)}) is not interpreted")
    return h(ctx, eqn, *ins)


def data_move(eqn, ins, positions):
    prm = eqn.params
    if positions is None:
        positions = list(range(len(ins)))
    pool = [None]
    idx_ins = []
    any_obj = False
    for k, x in enumerate(ins):
        if k in positions:
            a = x if isinstance(x, np.ndarray) else np.asarray(x)
            any_obj = any_obj or is_obj(a)
            ids = np.arange(len(pool), len(pool) + a.size, dtype=np.int64).reshape(a.shape)
            pool.extend(a.reshape(-1).tolist() if not is_obj(a) else [e[()] if isinstance(e, np.ndarray) and e.shape == () else e for e in a.reshape(-1)])
            idx_ins.append(jnp.asarray(ids))
        else:
            if is_obj(x):
                if not all_const(x):
                    raise Unsupported(f"symbolic index operand in {eqn.primitive.name}")
                x = concretize(x, np.int64)
            idx_ins.append(jnp.asarray(x))
    with jax.ensure_compile_time_eval():
        out = eqn.primitive.bind(*idx_ins, **prm)
    outs = out if eqn.primitive.multiple_results else [out]
    res = []
    for o, ov in zip(outs, eqn.outvars):
        o = np.asarray(o)
        dt = ov.aval.dtype
        if any_obj or is_float_dtype(dt):
            r = np.empty(o.shape, dtype=object)
            rf = r.reshape(-1)
            of = o.reshape(-1)
            for i in range(of.size):
                e = pool[int(of[i])]
                if e is None:
                    raise Unsupported(f"data movement {eqn.primitive.name} produced a fill value")
                rf[i] = e if isinstance(e, (V, B)) else P.as_v(e)
            if o.ndim == 0:
                r = np.empty((), dtype=object)
                e = pool[int(o)]
                r[()] = e if isinstance(e, (V, B)) else P.as_v(e)
            res.append(r)
        else:
            r = np.empty(o.shape, dtype=np.dtype(dt))
            rf = r.reshape(-1)
            of = o.reshape(-1)
            for i in range(of.size):
                rf[i] = pool[int(of[i])]
            if o.ndim == 0:
                r = np.asarray(pool[int(o)], dtype=np.dtype(dt))
            res.append(r)
    return res if eqn.primitive.multiple_results else res[0]


# ---- elementwise ---------------------------------------------------------------------------


def _bin(f):
    def h(ctx, eqn, a, b):
        return map_obj(f, a, b)

    return h


def _un(f):
    def h(ctx, eqn, a):
        return map_obj(f, a)

    return h


def _cmp(op):
    def f(a, b):
        if isinstance(a, B) or isinstance(b, B):
            # boolean equality
            a = a if isinstance(a, B) else P.b_const(bool(a.const_value()))
            b = b if isinstance(b, B) else P.b_const(bool(b.const_value()))
            same = P.b_or(P.b_and(a, b), P.b_and(P.b_not(a), P.b_not(b)))
            if op == "eq":
                return same
            if op == "ne":
                return P.b_not(same)
            raise Unsupported("ordering of booleans")
        return P.cmp0(op, a - b)

    def h(ctx, eqn, a, b):
        a = a if is_obj(a) else to_obj(a)
        b = b if is_obj(b) else to_obj(b)
        return map_obj(f, a, b)

    return h


def _as_b(x):
    if isinstance(x, B):
        return x
    if isinstance(x, V):
        if x.is_const():
            return P.b_const(bool(x.const_value()))
        raise Unsupported("symbolic integer used as boolean")
    return P.b_const(bool(x))


def _logic(op):
    def f(a, b):
        a, b = _as_b(a), _as_b(b)
        return P.b_and(a, b) if op == "and" else P.b_or(a, b)

    def h(ctx, eqn, a, b):
        a = a if is_obj(a) else to_obj(a, "B")
        b = b if is_obj(b) else to_obj(b, "B")
        return map_obj(f, a, b)

    return h


def h_not(ctx, eqn, a):
    a = a if is_obj(a) else to_obj(a, "B")
    return map_obj(lambda x: P.b_not(_as_b(x)), a)


def h_select_n(ctx, eqn, pred, *cases):
    if not is_obj(pred):
        pred = np.asarray(pred)
        shape = np.broadcast_shapes(pred.shape, *[np.shape(c) for c in cases])
        cs = [np.broadcast_to(c if is_obj(c) else to_obj(c), shape) for c in cases]
        if not any(is_obj(c) for c in cases):
            idx = pred.astype(np.int64)
            return np.choose(np.broadcast_to(idx, shape), [np.broadcast_to(np.asarray(c), shape) for c in cases])
        out = np.empty(shape, dtype=object)
        pb = np.broadcast_to(pred, shape)
        for i in np.ndindex(*shape):
            out[i] = cs[int(pb[i])][i]
        return out
    # symbolic predicate
    shape = np.broadcast_shapes(pred.shape, *[np.shape(c) for c in cases])
    kindB = any(is_obj(c) and c.size and isinstance(c.reshape(-1)[0], B) for c in cases) or all(
        (not is_obj(c)) and np.asarray(c).dtype == np.bool_ for c in cases
    )
    cs = [np.broadcast_to(c if is_obj(c) else to_obj(c, "B" if kindB else "V"), shape) for c in cases]
    pb = np.broadcast_to(pred, shape)
    out = np.empty(shape, dtype=object)
    for i in np.ndindex(*shape):
        p = pb[i]
        if isinstance(p, B):
            assert len(cs) == 2
            out[i] = _ite_any(p, cs[1][i], cs[0][i])
        else:  # symbolic integer index
            r = cs[-1][i]
            for k in range(len(cs) - 2, -1, -1):
                r = _ite_any(P.cmp0("eq", p - k), cs[k][i], r)
            out[i] = r
    return out


def _ite_any(c: B, a, b):
    if isinstance(a, B) or isinstance(b, B):
        a, b = _as_b(a), _as_b(b)
        return P.b_or(P.b_and(c, a), P.b_and(P.b_not(c), b))
    return P.ite(c, a, b)


def h_div(ctx, eqn, a, b):
    dt = eqn.outvars[0].aval.dtype
    if not is_float_dtype(dt):
        raise Unsupported("integer division of symbolic values")
    return map_obj(lambda x, y: x / y, a, b)


def h_integer_pow(ctx, eqn, a):
    y = eqn.params["y"]
    return map_obj(lambda x: x**y, a)


def h_pow(ctx, eqn, a, b):
    return map_obj(lambda x, y: x ** (y if isinstance(y, V) else P.as_v(y)), a, b)


def h_exp(ctx, eqn, a):
    def f(x):
        if x.is_const() and x.const_value() == 0:
            return P.ONE_V
        if P.is_inf(x):
            return P.pos_inf()
        st = x.p.single_term()
        if st is not None:
            m, c = st
            if len(m) == 1 and m[0][1] == 1 and c == 1:
                info = P.SYMS[m[0][0]]
                if info.get("atom") == "lgamma_int":
                    return P.as_v(math.factorial(info["k"] - 1))
                if info.get("atom") == "log":
                    return info["args"][0]
        # exp(sum_k c_k lgamma(k)) with integer c_k (binomial coefficients computed through log-gamma)
        from fractions import Fraction

        prod = Fraction(1)
        ok = bool(x.p.t)
        for m, c in x.p.t.items():
            if len(m) == 1 and m[0][1] == 1 and P.SYMS[m[0][0]].get("atom") == "lgamma_int" and Fraction(c).denominator == 1:
                prod *= Fraction(math.factorial(P.SYMS[m[0][0]]["k"] - 1)) ** int(c)
            else:
                ok = False
                break
        if ok:
            return P.as_v(prod)
        return P.atom_fun("exp", x, positive=True)

    return map_obj(f, a)


def h_lgamma(ctx, eqn, a):
    def f(x):
        if x.is_const():
            c = x.const_value()
            if c.denominator == 1 and c <= 0:
                return P.pos_inf()  # Gamma has poles at the non-positive integers: lgamma = +inf
            if c.denominator == 1 and c >= 1:
                k = int(c)
                if k <= 2:
                    return P.ZERO
                key = ("lgamma_int", k)
                v = P.ATOM_CACHE.get(key)
                if v is None:
                    sid = P.new_sym(f"lgamma({k})", "atom", atom="lgamma_int", k=k, args=())
                    P.POSITIVE.add(sid)
                    P.NONNEG.add(sid)
                    v = P.sym_v(sid)
                    P.ATOM_CACHE[key] = v
                return v
        raise Unsupported("lgamma of a non-integer / symbolic argument")

    return map_obj(f, a)


def h_log(ctx, eqn, a):
    def f(x):
        if x.is_const() and x.const_value() == 1:
            return P.ZERO
        return P.atom_fun("log", x)

    return map_obj(f, a)


def h_sqrt(ctx, eqn, a):
    return map_obj(P.sqrt, a)


def h_rsqrt(ctx, eqn, a):
    return map_obj(lambda x: P.inv(P.sqrt(x)), a)


def h_floor_like(fn):
    def h(ctx, eqn, a):
        def f(x):
            if x.is_const():
                return P.as_v(fn(x.const_value()))
            if fn in (math.floor, math.ceil):
                # uninterpreted atom with the bracketing axioms (x <= ceil x < x + 1); integrality is not modelled
                return P.atom_fun("floor" if fn is math.floor else "ceil", x)
            raise Unsupported("round of a symbolic value")

        return map_obj(f, a)

    return h


def h_convert(ctx, eqn, a):
    new = eqn.params["new_dtype"]
    if is_obj(a):
        if all_const(a):
            first = a.reshape(-1)[0] if a.size else None
            if jnp.issubdtype(new, jnp.floating):
                if isinstance(first, B):
                    return map_obj(lambda x: P.as_v(int(x.value())), a)
                return a
            if jnp.issubdtype(new, jnp.bool_):
                return concretize(map_obj(lambda x: x if isinstance(x, B) else P.b_const(x.const_value() != 0), a), np.bool_)
            vals = concretize(a, np.float64) if not isinstance(first, B) else concretize(a, np.bool_)
            return np.asarray(vals).astype(np.dtype(new))
        # symbolic
        first = a.reshape(-1)[0]
        if isinstance(first, B) and not jnp.issubdtype(new, jnp.bool_):
            return map_obj(lambda x: P.ite(_as_b(x), P.ONE_V, P.ZERO), a)
        if jnp.issubdtype(new, jnp.bool_) and not isinstance(first, B):
            return map_obj(lambda x: P.cmp0("ne", x), a)
        if jnp.issubdtype(new, jnp.integer) and is_float_dtype(eqn.invars[0].aval.dtype):
            raise Unsupported("float->int conversion of a symbolic value")
        return a
    a = np.asarray(a)
    if jnp.issubdtype(new, jnp.floating):
        return to_obj(a.astype(np.float64) if a.dtype.kind in "iub" else a)
    return a.astype(np.dtype(new))


def h_reduce_sum(ctx, eqn, a):
    axes = tuple(eqn.params["axes"])
    if not is_obj(a):
        return np.sum(a, axis=axes)
    if a.size == 0:
        shape = tuple(s for i, s in enumerate(a.shape) if i not in axes)
        out = np.empty(shape, dtype=object)
        for i in np.ndindex(*shape):
            out[i] = P.ZERO
        return out
    r = np.sum(a, axis=axes) if axes else a
    if not isinstance(r, np.ndarray):
        o = np.empty((), dtype=object)
        o[()] = r
        r = o
    return r


def h_reduce_fold(f2, native):
    def h(ctx, eqn, a):
        axes = tuple(eqn.params["axes"])
        if not is_obj(a):
            return native(a, axis=axes)
        moved = np.moveaxis(a, axes, range(len(axes)))
        rest = moved.shape[len(axes) :]
        flat = moved.reshape((-1,) + rest)
        out = np.empty(rest, dtype=object)
        for i in np.ndindex(*rest):
            acc = None
            for k in range(flat.shape[0]):
                x = flat[(k,) + i]
                acc = x if acc is None else f2(acc, x)
            out[i] = acc
        return out

    return h


def h_cumsum(ctx, eqn, a):
    axis = eqn.params["axis"]
    rev = eqn.params.get("reverse", False)
    if not is_obj(a):
        return np.flip(np.cumsum(np.flip(a, axis), axis), axis) if rev else np.cumsum(a, axis)
    a2 = np.flip(a, axis) if rev else a
    out = np.empty(a.shape, dtype=object)
    moved = np.moveaxis(a2, axis, 0)
    mo = np.moveaxis(out, axis, 0)
    acc = None
    for k in range(moved.shape[0]):
        acc = moved[k] if acc is None else acc + moved[k]
        mo[k] = acc
    return np.flip(out, axis) if rev else out


def h_dot_general(ctx, eqn, a, b):
    (ca, cb), (ba, bb) = eqn.params["dimension_numbers"]
    a = a if is_obj(a) else to_obj(a)
    b = b if is_obj(b) else to_obj(b)
    ca, cb, ba, bb = map(tuple, (ca, cb, ba, bb))
    fa = [i for i in range(a.ndim) if i not in ca and i not in ba]
    fb = [i for i in range(b.ndim) if i not in cb and i not in bb]
    at = np.transpose(a, list(ba) + fa + list(ca))
    bt = np.transpose(b, list(bb) + fb + list(cb))
    bshape = at.shape[: len(ba)]
    fas = at.shape[len(ba) : len(ba) + len(fa)]
    fbs = bt.shape[len(bb) : len(bb) + len(fb)]
    cs = at.shape[len(ba) + len(fa) :]
    nb = int(np.prod(bshape)) if bshape else 1
    nfa = int(np.prod(fas)) if fas else 1
    nfb = int(np.prod(fbs)) if fbs else 1
    nc = int(np.prod(cs)) if cs else 1
    a3 = at.reshape(nb, nfa, nc)
    b3 = bt.reshape(nb, nfb, nc)
    out = np.empty((nb, nfa, nfb), dtype=object)
    for n in range(nb):
        for i in range(nfa):
            ar = a3[n, i]
            for j in range(nfb):
                br = b3[n, j]
                acc = P.ZERO
                for k in range(nc):
                    x = ar[k]
                    if x.p.is_zero():
                        continue
                    y = br[k]
                    if y.p.is_zero():
                        continue
                    acc = acc + x * y
                out[n, i, j] = acc
    return out.reshape(tuple(bshape) + tuple(fas) + tuple(fbs))


def h_iota(ctx, eqn):
    p = eqn.params
    with jax.ensure_compile_time_eval():
        r = np.asarray(lax.iota_p.bind(**p))
    return r


def h_clamp(ctx, eqn, lo, x, hi):
    return map_obj(lambda l, v, h: P.vmin(P.vmax(v, l), h), lo, x, hi)


def h_is_finite(ctx, eqn, a):
    return np.ones(np.shape(a), dtype=bool)


def h_argminmax(ctx, eqn, a):
    raise Unsupported("argmin/argmax of symbolic values")


# ---- call-like ------------------------------------------------------------------------------


def _closed(j):
    if hasattr(j, "jaxpr") and hasattr(j, "consts"):
        return j.jaxpr, j.consts
    return j, ()


def h_pjit(ctx, eqn, *ins):
    j, c = _closed(eqn.params["jaxpr"])
    return eval_jaxpr(ctx, j, c, *ins)


def h_closed_call(ctx, eqn, *ins):
    j, c = _closed(eqn.params["call_jaxpr"])
    return eval_jaxpr(ctx, j, c, *ins)


def h_custom_jvp(ctx, eqn, *ins):
    j, c = _closed(eqn.params["call_jaxpr"])
    return eval_jaxpr(ctx, j, c, *ins)


def h_custom_vjp(ctx, eqn, *ins):
    key = "call_jaxpr" if "call_jaxpr" in eqn.params else "fun_jaxpr"
    j, c = _closed(eqn.params[key])
    return eval_jaxpr(ctx, j, c, *ins)


def h_remat(ctx, eqn, *ins):
    j, c = _closed(eqn.params["jaxpr"])
    return eval_jaxpr(ctx, j, c, *ins)


# ---- control flow -----------------------------------------------------------------------------


def h_cond(ctx, eqn, idx, *ops):
    branches = eqn.params["branches"]
    if not is_obj(idx):
        k = int(np.asarray(idx))
        k = max(0, min(k, len(branches) - 1))
        j, c = _closed(branches[k])
        return eval_jaxpr(ctx, j, c, *ops)
    i = idx[()]
    if isinstance(i, B):
        conds = [P.b_not(i), i]
    else:
        conds = [P.cmp0("eq", i - k) for k in range(len(branches))]
    results = []
    for k, br in enumerate(branches):
        j, c = _closed(br)
        ctx.path.append(conds[k])
        try:
            results.append(eval_jaxpr(ctx, j, c, *ops))
        finally:
            ctx.path.pop()
    outs = []
    for leaf in range(len(results[0])):
        vals = [r[leaf] for r in results]
        shape = np.shape(vals[0])
        vo = [v if is_obj(v) else to_obj(v) for v in vals]
        out = np.empty(shape, dtype=object)
        for ix in np.ndindex(*shape):
            r = vo[-1][ix]
            for k in range(len(vo) - 2, -1, -1):
                r = _ite_any(conds[k], vo[k][ix], r)
            out[ix] = r
        outs.append(out)
    return outs


def _index_leaf(x, k):
    return x[k]


def h_scan(ctx, eqn, *ins):
    p = eqn.params
    if "num_consts" in p:
        nc, ncar = p["num_consts"], p["num_carry"]
    else:  # newer jax: flat-tree descriptors (consts, carry, xs) / (carry, ys)
        ft = p["ft_in"]
        if hasattr(ft, "elts"):
            nc, ncar = len(ft.elts[0]), len(ft.elts[1])
        else:
            nc, ncar = len(ft[0]), len(ft[1])
    length, reverse = p["length"], p["reverse"]
    j, c = _closed(p["jaxpr"])
    consts = list(ins[:nc])
    carry = list(ins[nc : nc + ncar])
    xs = list(ins[nc + ncar :])
    nys = len(j.outvars) - ncar
    ys = [[None] * length for _ in range(nys)]
    order = range(length - 1, -1, -1) if reverse else range(length)
    for t in order:
        x_t = [x[t] if isinstance(x, np.ndarray) and x.ndim else x for x in xs]
        x_t = [np.asarray(x) if not is_obj(x) and not isinstance(x, np.ndarray) else x for x in x_t]
        x_t = [_ensure_array(x) for x in x_t]
        outs = eval_jaxpr(ctx, j, c, *consts, *carry, *x_t)
        carry = [_normalise(o, v.aval) for o, v in zip(outs[:ncar], j.outvars[:ncar])]
        for k, y in enumerate(outs[ncar:]):
            ys[k][t] = y
    stacked = []
    for k in range(nys):
        aval = j.outvars[ncar + k].aval
        if length == 0:
            if is_float_dtype(aval.dtype):
                stacked.append(np.empty((0,) + tuple(aval.shape), dtype=object))
            else:
                stacked.append(np.empty((0,) + tuple(aval.shape), dtype=np.dtype(aval.dtype)))
            continue
        if any(is_obj(y) for y in ys[k]):
            arr = np.empty((length,) + tuple(aval.shape), dtype=object)
            for t in range(length):
                arr[t] = ys[k][t] if is_obj(ys[k][t]) else to_obj(ys[k][t])
        else:
            arr = np.stack([np.asarray(y) for y in ys[k]])
        stacked.append(arr)
    return carry + stacked


def _ensure_array(x):
    if isinstance(x, np.ndarray):
        return x
    if isinstance(x, (V, B)):
        o = np.empty((), dtype=object)
        o[()] = x
        return o
    return np.asarray(x)


MAX_WHILE = 10000


def h_while(ctx, eqn, *ins):
    p = eqn.params
    cn, bn = p["cond_nconsts"], p["body_nconsts"]
    cj, cc = _closed(p["cond_jaxpr"])
    bj, bc = _closed(p["body_jaxpr"])
    cconsts = list(ins[:cn])
    bconsts = list(ins[cn : cn + bn])
    carry = list(ins[cn + bn :])
    for _ in range(MAX_WHILE):
        (pred,) = eval_jaxpr(ctx, cj, cc, *cconsts, *carry)
        if is_obj(pred):
            if not all_const(pred):
                raise Unsupported(
                    "while loop with a symbolic guard: use the loop rule (contract on the loop) instead"
                )
            pred = concretize(pred, np.bool_)
        if not bool(np.asarray(pred)):
            return carry
        outs = eval_jaxpr(ctx, bj, bc, *bconsts, *carry)
        carry = [_normalise(o, v.aval) for o, v in zip(outs, bj.outvars)]
    raise Unsupported("concrete while loop did not terminate within MAX_WHILE iterations")


CONTROL = {"cond", "scan", "while"}
CALL_LIKE = {"pjit", "jit", "closed_call", "core_call", "custom_jvp_call", "custom_vjp_call", "custom_vjp_call_jaxpr", "remat", "checkpoint", "custom_lin"}


def _sign(x):
    return P.vsign(x)


def h_square(ctx, eqn, a):
    return map_obj(lambda x: x * x, a)


def h_scatter_add(ctx, eqn, operand, indices, updates):
    """scatter-add with concrete indices: the target of every update element is found by running the
    real primitive on one-hot updates; the additions are then done symbolically."""
    prm = eqn.params
    if is_obj(indices):
        if not all_const(indices):
            raise Unsupported("scatter-add with symbolic indices")
        indices = concretize(indices, np.int64)
    ushape = np.shape(updates)
    N = int(np.prod(ushape)) if ushape else 1
    oshape = np.shape(operand)
    with jax.ensure_compile_time_eval():
        basis = jnp.eye(N).reshape((N,) + tuple(ushape))
        zeros = jnp.zeros(oshape)
        idx = jnp.asarray(indices)
        T = np.asarray(jax.vmap(lambda u: eqn.primitive.bind(zeros, idx, u, **prm))(basis))
    out = np.array(operand if is_obj(operand) else to_obj(operand), dtype=object, copy=True)
    upd = (updates if is_obj(updates) else to_obj(updates)).reshape(-1)
    for e in range(N):
        nz = np.argwhere(T[e] != 0)
        for pos in nz:
            pos = tuple(pos)
            w = T[e][pos]
            out[pos] = out[pos] + (upd[e] if w == 1 else upd[e] * P.as_v(float(w)))
    return out


def h_stop_gradient(ctx, eqn, a):
    return a


def h_qr(ctx, eqn, M):
    """Kernel axiom for the reduced QR factorisation: Q R = M, Q^T Q = I, R upper triangular."""
    from . import prims

    if eqn.params.get("full_matrices") or eqn.params.get("pivoting"):
        raise Unsupported("qr with full_matrices / pivoting")
    M = M if is_obj(M) else to_obj(M)
    m, n = M.shape
    k = min(m, n)
    cid = prims._count("qr")
    Q, qs = prims.fresh_array((m, k), f"Qf{cid}")
    R, rs = prims.fresh_array((k, n), f"Rf{cid}", mask=lambda ix: ix[0] <= ix[1])
    prims.CALL_LOG.append({"name": "qr", "operands": [M], "out_sids": [qs, rs], "native": lambda a: [np.asarray(x) for x in jnp.linalg.qr(jnp.asarray(a), mode="reduced")]})
    for i_ in range(m):
        for j in range(n):
            acc = P.ZERO
            for l in range(k):
                acc = acc + Q[i_, l] * R[l, j]
            ctx.assume_eq(f"qr#{cid}.QR=M[{i_},{j}]", acc - M[i_, j])
    for a in range(k):
        for b in range(a, k):
            acc = P.ZERO
            for l in range(m):
                acc = acc + Q[l, a] * Q[l, b]
            ctx.assume_eq(f"qr#{cid}.QtQ=I[{a},{b}]", acc - (P.ONE_V if a == b else P.ZERO))
    return [Q, R]


HANDLERS = {
    "add": _bin(lambda x, y: x + y),
    "add_any": _bin(lambda x, y: x + y),
    "sub": _bin(lambda x, y: x - y),
    "mul": _bin(lambda x, y: x * y),
    "neg": _un(lambda x: -x),
    "div": h_div,
    "max": _bin(P.vmax),
    "min": _bin(P.vmin),
    "abs": _un(P.vabs),
    "sign": _un(_sign),
    "sqrt": h_sqrt,
    "rsqrt": h_rsqrt,
    "square": h_square,
    "integer_pow": h_integer_pow,
    "pow": h_pow,
    "exp": h_exp,
    "log": h_log,
    "lgamma": h_lgamma,
    "floor": h_floor_like(math.floor),
    "ceil": h_floor_like(math.ceil),
    "round": h_floor_like(round),
    "eq": _cmp("eq"),
    "ne": _cmp("ne"),
    "lt": _cmp("lt"),
    "le": _cmp("le"),
    "gt": _cmp("gt"),
    "ge": _cmp("ge"),
    "le_to": _cmp("le"),  # total-order comparisons: identical on the reals (no NaN in real arithmetic)
    "lt_to": _cmp("lt"),
    "and": _logic("and"),
    "or": _logic("or"),
    "not": h_not,
    "select_n": h_select_n,
    "convert_element_type": h_convert,
    "reduce_sum": h_reduce_sum,
    "reduce_max": h_reduce_fold(P.vmax, np.max),
    "reduce_min": h_reduce_fold(P.vmin, np.min),
    "reduce_prod": h_reduce_fold(lambda x, y: x * y, np.prod),
    "reduce_and": h_reduce_fold(lambda x, y: P.b_and(_as_b(x), _as_b(y)), np.all),
    "reduce_or": h_reduce_fold(lambda x, y: P.b_or(_as_b(x), _as_b(y)), np.any),
    "cumsum": h_cumsum,
    "dot_general": h_dot_general,
    "iota": h_iota,
    "clamp": h_clamp,
    "is_finite": h_is_finite,
    "pjit": h_pjit,
    "jit": h_pjit,
    "closed_call": h_closed_call,
    "core_call": h_closed_call,
    "custom_jvp_call": h_custom_jvp,
    "custom_vjp_call": h_custom_vjp,
    "custom_vjp_call_jaxpr": h_custom_vjp,
    "remat": h_remat,
    "checkpoint": h_remat,
    "cond": h_cond,
    "scan": h_scan,
    "while": h_while,
    "stop_gradient": h_stop_gradient,
    "qr": h_qr,
    "scatter-add": h_scatter_add,
    "scatter_add": h_scatter_add,
}
