"""SMT-LIB emission of the expression DAG and drivers for z3 (in-process) and cvc5 (CLI)."""

from __future__ import annotations

import subprocess
import time
from fractions import Fraction

from . import poly as P
from .poly import B, V

CVC5 = "/usr/bin/cvc5"


def _num(fr: Fraction) -> str:
    fr = Fraction(fr)
    if fr < 0:
        return f"(- {_num(-fr)})"
    if fr.denominator == 1:
        return f"{fr.numerator}.0"
    return f"(/ {fr.numerator}.0 {fr.denominator}.0)"


class Emitter:
    def __init__(self):
        self.nodes: set[int] = set()
        self.syms: set[int] = set()
        self.lines_axioms: list[str] = []
        self._atoms_done: set[int] = set()
        self._pending_atoms: list[int] = []

    # -- closure ---------------------------------------------------------------------
    def need_node(self, n: int):
        stack = [n]
        while stack:
            k = stack.pop()
            if k in self.nodes:
                continue
            self.nodes.add(k)
            t = P.NODES[k]
            op = t[0]
            if op == "c":
                continue
            if op == "s":
                self.need_sym(t[1])
                continue
            if op == "pow":
                stack.append(t[1])
                continue
            for a in t[1:]:
                stack.append(a)

    def need_sym(self, sid: int):
        if sid in self.syms:
            return
        self.syms.add(sid)
        info = P.SYMS[sid]
        if info["kind"] == "atom":
            self._pending_atoms.append(sid)

    def need_v(self, v: V) -> str:
        self.need_node(v.n)
        return f"n{v.n}"

    def need_poly(self, p) -> str:
        n = P.poly_node(p)
        self.need_node(n)
        return f"n{n}"

    def bool_term(self, b: B) -> str:
        op = b.op
        if op == "const":
            return "true" if b.args[0] else "false"
        if op in ("lt", "le", "eq"):
            t = self.need_v(b.args[0])
            return {"lt": f"(< {t} 0.0)", "le": f"(<= {t} 0.0)", "eq": f"(= {t} 0.0)"}[op]
        if op == "var":
            nm = "b_" + "".join(ch if ch.isalnum() else "_" for ch in str(b.args[0]))
            self._opaque_bools = getattr(self, "_opaque_bools", set())
            self._opaque_bools.add(nm)
            return nm
        if op == "not":
            return f"(not {self.bool_term(b.args[0])})"
        if op in ("and", "or"):
            return f"({op} {' '.join(self.bool_term(a) for a in b.args)})"
        # opaque predicates are declared as free Bool constants
        nm = "p_" + "".join(ch if ch.isalnum() else "_" for ch in op)
        self.lines_axioms.append(f"; opaque predicate {op}")
        self._opaque_bools = getattr(self, "_opaque_bools", set())
        self._opaque_bools.add(nm)
        return nm

    def _atom_axioms(self, sid: int):
        info = P.SYMS[sid]
        kind = info.get("atom")
        args = info.get("args", ())
        s = f"s{sid}"
        ax = self.lines_axioms
        if kind == "sqrt":
            a = self.need_v(args[0])
            ax.append(f"(assert (= (* {s} {s}) {a}))")
            ax.append(f"(assert (>= {s} 0.0))")
        elif kind == "abs":
            a = self.need_v(args[0])
            ax.append(f"(assert (= {s} (ite (>= {a} 0.0) {a} (- {a}))))")
        elif kind == "inv":
            a = self.need_v(args[0])
            ax.append(f"(assert (=> (distinct {a} 0.0) (= (* {s} {a}) 1.0)))")
        elif kind == "ite":
            c = self.bool_term(args[0])
            a = self.need_v(args[1])
            b = self.need_v(args[2])
            ax.append(f"(assert (= {s} (ite {c} {a} {b})))")
        elif kind == "max":
            a = self.need_v(args[0])
            b = self.need_v(args[1])
            ax.append(f"(assert (= {s} (ite (>= {a} {b}) {a} {b})))")
        elif kind == "min":
            a = self.need_v(args[0])
            b = self.need_v(args[1])
            ax.append(f"(assert (= {s} (ite (<= {a} {b}) {a} {b})))")
        elif kind == "sign":
            a = self.need_v(args[0])
            ax.append(f"(assert (= {s} (ite (> {a} 0.0) 1.0 (ite (< {a} 0.0) (- 1.0) 0.0))))")
        elif kind == "pow":
            base = self.need_v(args[0])
            ex = self.need_v(args[1])
            # axioms of real powers (trusted): positivity and position relative to 1
            ax.append(f"(assert (=> (> {base} 0.0) (> {s} 0.0)))")
            ax.append(f"(assert (=> (and (> {base} 0.0) (< {base} 1.0) (> {ex} 0.0)) (< {s} 1.0)))")
            ax.append(f"(assert (=> (and (>= {base} 1.0) (> {ex} 0.0)) (>= {s} 1.0)))")
            ax.append(f"(assert (=> (and (> {base} 0.0) (< {base} 1.0) (< {ex} 0.0)) (> {s} 1.0)))")
            ax.append(f"(assert (=> (and (>= {base} 1.0) (< {ex} 0.0)) (<= {s} 1.0)))")
            ax.append(f"(assert (=> (= {base} 1.0) (= {s} 1.0)))")
            ax.append(f"(assert (=> (and (> {base} 0.0) (= {ex} 0.0)) (= {s} 1.0)))")
        elif kind == "exp":
            ax.append(f"(assert (> {s} 0.0))")
        elif kind == "log":
            a = args[0]
            if a.is_const() and a.const_value() > 0:
                import math

                x = math.log(float(a.const_value()))
                lo, hi = Fraction(math.nextafter(math.nextafter(x, -math.inf), -math.inf)), Fraction(math.nextafter(math.nextafter(x, math.inf), math.inf))
                ax.append(f"(assert (and (> {s} {_num(lo)}) (< {s} {_num(hi)}))) ; log of a constant, enclosure of 2 ulp")
        elif kind == "ceil":
            a = self.need_v(args[0])
            ax.append(f"(assert (and (>= {s} {a}) (< {s} (+ {a} 1.0))))")
        elif kind == "floor":
            a = self.need_v(args[0])
            ax.append(f"(assert (and (<= {s} {a}) (> {s} (- {a} 1.0))))")
        for a in args:
            if isinstance(a, V):
                self.need_node(a.n)

    def text(self, asserts: list[str], logic="QF_NRA") -> str:
        # resolve atoms transitively; exponentials vs logarithms: for b > 1,  e * log b >= log r  <=>  b^e >= r  (r > 0)
        done_pairs = getattr(self, "_pow_log_pairs", set())
        self._pow_log_pairs = done_pairs
        while True:
            while self._pending_atoms:
                sid = self._pending_atoms.pop()
                if sid in self._atoms_done:
                    continue
                self._atoms_done.add(sid)
                self._atom_axioms(sid)
            pows = [sid for sid in self._atoms_done if P.SYMS[sid].get("atom") == "pow" and P.SYMS[sid]["args"][0].is_const() and P.SYMS[sid]["args"][0].const_value() > 1]
            logs = [sid for sid in self._atoms_done if P.SYMS[sid].get("atom") == "log"]
            for ps in pows:
                base = P.SYMS[ps]["args"][0]
                logb = [ls for ls in logs if (P.SYMS[ls]["args"][0] - base).p.is_zero()]
                if not logb:
                    continue
                for ls in logs:
                    r = P.SYMS[ls]["args"][0]
                    if r.is_const() or (ps, ls) in done_pairs:
                        continue
                    done_pairs.add((ps, ls))
                    e = self.need_v(P.SYMS[ps]["args"][1])
                    rt = self.need_v(r)
                    self.lines_axioms.append(f"(assert (=> (and (> {rt} 0.0) (>= (* {e} s{logb[0]}) s{ls})) (>= s{ps} {rt}))) ; b^e >= r")
                    self.lines_axioms.append(f"(assert (=> (and (> {rt} 0.0) (<= (* {e} s{logb[0]}) s{ls})) (<= s{ps} {rt}))) ; b^e <= r")
            if not self._pending_atoms:
                break
        out = [f"(set-logic {logic})"]
        for sid in sorted(self.syms):
            out.append(f"(declare-const s{sid} Real)")
            if P.SYMS[sid]["kind"] != "atom" or P.SYMS[sid].get("atom") in ("pow", "exp", "lgamma_int"):
                if sid in P.POSITIVE:
                    out.append(f"(assert (> s{sid} 0.0))")
                elif sid in P.NONNEG:
                    out.append(f"(assert (>= s{sid} 0.0))")
            if sid in P.POWER_RULES and P.SYMS[sid]["kind"] == "rademacher":
                out.append(f"(assert (= (* s{sid} s{sid}) 1.0))")
        for nm in sorted(getattr(self, "_opaque_bools", ())):
            out.append(f"(declare-const {nm} Bool)")
        for k in sorted(self.nodes):
            t = P.NODES[k]
            op = t[0]
            if op == "c":
                e = _num(t[1])
            elif op == "s":
                e = f"s{t[1]}"
            elif op == "+":
                e = f"(+ n{t[1]} n{t[2]})"
            elif op == "-":
                e = f"(- n{t[1]} n{t[2]})"
            elif op == "*":
                e = f"(* n{t[1]} n{t[2]})"
            elif op == "neg":
                e = f"(- n{t[1]})"
            elif op == "inv":
                e = f"(/ 1.0 n{t[1]})"
            elif op == "sqrt":
                # only produced for exact monomial square roots; re-expressed through the poly
                raise RuntimeError("sqrt node should not be emitted")
            elif op == "pow":
                e = "(* " + " ".join([f"n{t[1]}"] * t[2]) + ")" if t[2] > 1 else f"n{t[1]}"
            else:
                raise RuntimeError(f"unknown node {t}")
            out.append(f"(define-fun n{k} () Real {e})")
        out.extend(self.lines_axioms)
        out.extend(asserts)
        out.append("(check-sat)")
        return "\n".join(out) + "\n"


# --------------------------------------------------------------------------------------
# solver drivers
# --------------------------------------------------------------------------------------


def run_z3(text: str, timeout_s: float, want_model=False):
    import z3

    t0 = time.time()
    s = z3.Solver()
    s.set("timeout", int(timeout_s * 1000))
    try:
        s.from_string(text.replace("(check-sat)\n", ""))
        r = s.check()
    except z3.Z3Exception as e:  # pragma: no cover
        return "error", time.time() - t0, str(e)
    res = str(r)
    model = None
    if res == "sat" and want_model:
        m = s.model()
        model = {}
        for d in m.decls():
            if d.arity() > 0:
                continue  # interpretation of division at zero etc.: printing it can take exponential time
            v = m[d]
            try:
                if z3.is_algebraic_value(v):
                    v = v.approx(20)
                if z3.is_rational_value(v):
                    model[d.name()] = float(v.numerator_as_long()) / float(v.denominator_as_long())
                elif z3.is_true(v) or z3.is_false(v):
                    model[d.name()] = str(v)
            except Exception:
                pass
    return res, time.time() - t0, model


def run_cvc5(text: str, timeout_s: float):
    t0 = time.time()
    try:
        r = subprocess.run(
            [CVC5, "--lang", "smt2", f"--tlimit={int(timeout_s * 1000)}", "--nl-ext-tplanes"],
            input=text,
            capture_output=True,
            text=True,
            timeout=timeout_s + 5,
        )
        out = r.stdout.strip().splitlines()
        res = out[-1].strip() if out else "unknown"
        if res not in ("sat", "unsat", "unknown"):
            res = "unknown" if "timeout" in (r.stdout + r.stderr).lower() or "interrupted" in (r.stdout + r.stderr).lower() else "error:" + (r.stdout + r.stderr)[:200]
    except subprocess.TimeoutExpired:
        res = "unknown"
    return res, time.time() - t0, None
