"""./check <property> [--tier quick|thorough] [--replay path] [--only substr] [--jobs N]

Exit codes: 0 every obligation discharged (known findings printed as KNOWN-FINDING lines);
1 an obligation that is not a listed known finding failed (VIOLATION line); 2 undecided (an
obligation could not be discharged but holds numerically at every sampled point: incompleteness of
the certificate search, never reported as a violation); 3 checker error.
"""

from __future__ import annotations

import argparse
import hashlib
import importlib
import json
import multiprocessing as mp
import os
import re
import sys
import time
import traceback

HERE = os.path.dirname(os.path.dirname(os.path.abspath(__file__)))
sys.path.insert(0, HERE)
os.environ.setdefault("JAX_PLATFORMS", "cpu")
os.environ.setdefault("XLA_FLAGS", "--xla_cpu_multi_thread_eigen=false intra_op_parallelism_threads=1")
os.environ.setdefault("OMP_NUM_THREADS", "1")


def _worker_init():
    import jax

    jax.config.update("jax_enable_x64", True)
    sys.path.insert(0, HERE)
    sys.path.insert(0, os.environ.get("VERIF_REPO", "/repo"))
    from vcgen import prims

    prims.install_kernels()


def _load_property(pid):
    return importlib.import_module(f"props.{pid}")


class _UnitTimeout(BaseException):
    pass


def _run_task(task):
    pid, cname, iname, seed, tier = task
    import signal

    limit = int(float(os.environ.get("VERIF_TASK_TIMEOUT", "600" if tier == "quick" else "3600")))

    where = []

    def _alarm(signum, frame):
        import traceback

        where[:] = [f"{os.path.basename(fs.filename)}:{fs.lineno}:{fs.name}" for fs in traceback.extract_stack(frame) if "/z3/" not in fs.filename][-6:]
        raise _UnitTimeout()

    signal.signal(signal.SIGALRM, _alarm)
    signal.alarm(limit)
    try:
        return _run_task_inner(task)
    except _UnitTimeout:
        return _error_result(task, f"checker-error: verification unit did not finish within {limit}s (undecided, not a violation); interrupted at {' > '.join(where)}")
    finally:
        signal.alarm(0)


def _run_task_inner(task):
    pid, cname, iname, seed, tier = task
    try:
        mod = _load_property(pid)
        from vcgen import harness

        contract = harness.lookup_contract(mod, cname)
        inst = {i.name: i for i in contract.instances(tier)}[iname]
        r = harness.verify_instance(contract, inst, seed=seed, tier=tier)
        out = r.__dict__.copy()
        out.pop("proved_names", None)
        # confirm failures natively and prepare replay payloads
        # native replay of failed obligations: at most a handful per unit (a broken function typically fails hundreds
        # of entry-wise obligations of the same clause; replaying each separately only costs time)
        replayed = 0
        for f in out["failed"]:
            if replayed >= 4:
                f["native"] = {"violated": False, "note": "not replayed individually: more than 4 failed obligations in this unit (see the first ones)"}
                continue
            replayed += 1
            try:
                f["native"] = harness.confirm_native(contract, inst, f, seed)
            except Exception as e:  # pragma: no cover
                f["native"] = {"error": repr(e)[:300]}
        return out
    except Exception:
        return {"contract": cname, "instance": iname, "error": "checker-error: " + traceback.format_exc(), "obligations": 0, "discharged": 0, "failed": [], "undecided": [], "by_backend": {}, "inherited": [], "solver_s": {}, "wall_s": 0.0, "samples": [], "kernel_calls": {}, "prims_seen": {}, "selfcheck": {}, "num_eqns": 0, "assumptions_used": 0}


def _run_extra(pid, tier, seed):
    return _load_property(pid).extra_checks(tier, seed)


def _error_result(task, msg):
    return {"contract": task[1], "instance": task[2], "error": msg, "obligations": 0, "discharged": 0, "failed": [], "undecided": [], "by_backend": {}, "inherited": [], "solver_s": {}, "wall_s": 0.0, "samples": [], "kernel_calls": {}, "prims_seen": {}, "selfcheck": {}, "num_eqns": 0, "assumptions_used": 0}


def _run_pool(tasks, jobs, tier):
    results = []
    if not tasks:
        return results
    ctx = mp.get_context("spawn")
    task_timeout = float(os.environ.get("VERIF_TASK_TIMEOUT", "600" if tier == "quick" else "3600"))
    pool = ctx.Pool(min(jobs, len(tasks)), initializer=_worker_init, maxtasksperchild=8)
    try:
        pending = [(t, pool.apply_async(_run_task, (t,))) for t in tasks]
        # every unit has its own time limit (alarm inside the worker); the parent only guards against a stuck pool
        rounds = -(-len(tasks) // max(1, min(jobs, len(tasks))))
        deadline = time.time() + task_timeout * (rounds + 1)
        for t, ar in pending:
            try:
                results.append(ar.get(timeout=max(1.0, deadline - time.time())))
            except mp.TimeoutError:
                results.append(_error_result(t, f"checker-error: verification unit did not finish within {task_timeout:.0f}s (undecided, not a violation)"))
            except Exception as e:  # worker died
                results.append(_error_result(t, f"checker-error: worker failed: {e!r}"))
    finally:
        pool.terminate()
    return results


def load_known(pid):
    path = os.path.join(HERE, "known_findings.txt")
    findings = []
    if os.path.exists(path):
        for line in open(path):
            line = line.strip()
            if not line or line.startswith("#"):
                continue
            m = re.match(r"finding:\s+property=(\S+)\s+match=(\S+)\s+(.*)", line)
            if m and m.group(1) == pid:
                findings.append({"pattern": m.group(2), "what": m.group(3)})
    return findings


def main(argv=None):
    ap = argparse.ArgumentParser()
    ap.add_argument("property")
    ap.add_argument("--tier", default=os.environ.get("VERIF_TIER", "quick"))
    ap.add_argument("--replay", default=None)
    ap.add_argument("--only", default=None)
    ap.add_argument("--jobs", type=int, default=int(os.environ.get("VERIF_JOBS", "16")))
    ap.add_argument("--no-evidence", action="store_true")
    args = ap.parse_args(argv)
    pid = args.property
    tier = args.tier if args.tier in ("quick", "thorough") else "quick"
    if tier == "thorough":
        os.environ.setdefault("VC_CVC5_MODE", "always")
        os.environ.setdefault("VC_IDENTITY_TIMEOUT", "60")
        os.environ.setdefault("VERIF_OUTPUT_COVERAGE", "1")  # audit: result leaves no postcondition clause mentions
    seed = int(os.environ.get("VERIF_SEED", "0"))
    t0 = time.time()
    sys.path.insert(0, os.environ.get("VERIF_REPO", "/repo"))

    if args.replay:
        from vcgen import prims

        prims.install_kernels()
        from vcgen import harness

        return harness.replay(args.replay)

    _worker_init()
    try:
        mod = _load_property(pid)
    except Exception:
        traceback.print_exc()
        print(f"CHECKER-ERROR property={pid} cannot load property module")
        return 3

    tasks = []
    from vcgen import harness as _h

    for c in _h.all_contracts(mod):
        if c.instances is None:
            continue  # assumed-only contract (no home proof in this framework): listed in the evidence as an assumption
        for inst in c.instances(tier):
            if args.only and args.only not in c.name + "/" + inst.name:
                continue
            tasks.append((pid, c.name, inst.name, seed, tier))
    extra_results = []
    results = []
    results += _run_pool(tasks, args.jobs, tier)
    # delegation contracts of the backend wrappers behind every kernel the units above relied on (contracts/backend.py):
    # the kernel contract is assumed for the JAX routine, the wrapper's own body is repository code
    from contracts import backend as _backend

    used = {k for r in results for k in (r.get("kernel_calls") or {})}
    if used & {"normal", "rademacher"}:
        used |= {"split", "prng_key"}  # key handling is not logged per call
    tasks2, seen = [], set()
    for k in sorted(used):
        c = _backend.by_kernel().get(k)
        if c is None or c.name in seen:
            continue
        seen.add(c.name)
        for inst in c.instances(tier):
            if args.only and args.only not in c.name + "/" + inst.name:
                continue
            tasks2.append((pid, c.name, inst.name, seed, tier))
    results += _run_pool(tasks2, args.jobs, tier)
    if hasattr(mod, "extra_checks") and not args.only:
        # extra (bounded / structural) checks run the real code natively: in a worker with a time limit, so that a
        # change that makes the real code loop forever ends as a checker error instead of hanging the check
        ctx = mp.get_context("spawn")
        extra_timeout = float(os.environ.get("VERIF_EXTRA_TIMEOUT", "900" if tier == "quick" else "3600"))
        pool = ctx.Pool(1, initializer=_worker_init)
        try:
            extra_results = pool.apply_async(_run_extra, (pid, tier, seed)).get(timeout=extra_timeout)
        except mp.TimeoutError:
            results.append(_error_result((pid, "extra_checks", tier, seed, tier), f"checker-error: the extra (native) checks did not finish within {extra_timeout:.0f}s (the real code may not terminate on one of the enumerated configurations; undecided, not a violation)"))
        except Exception as e:
            results.append(_error_result((pid, "extra_checks", tier, seed, tier), f"checker-error: extra checks failed: {e!r}"))
        finally:
            pool.terminate()

    return report(pid, tier, seed, mod, results, extra_results, t0, write=not args.no_evidence and not args.only)


def report(pid, tier, seed, mod, results, extra_results, t0, write=True):
    known = load_known(pid)
    obligations = discharged = 0
    by_backend = {}
    solver_s = {}
    violations = []
    known_hits = {}
    undecided = []
    errors = []
    inherited = set()
    samples = []
    functions = {}
    prims_seen = {}
    kernel_calls = {}
    selfcheck_pts = 0
    selfcheck_err = 0.0
    uncovered = {}
    for r in sorted(results, key=lambda r: (r["contract"], r["instance"])):
        if r.get("error"):
            errors.append({"contract": r["contract"], "instance": r["instance"], "error": r["error"]})
            continue
        fkey = r["contract"]
        fn = functions.setdefault(fkey, {"instances": 0, "obligations": 0, "discharged": 0})
        fn["instances"] += 1
        fn["obligations"] += r["obligations"]
        fn["discharged"] += r["discharged"]
        obligations += r["obligations"]
        discharged += r["discharged"]
        for k, v in r["by_backend"].items():
            by_backend[k] = by_backend.get(k, 0) + v
        for k, v in r["solver_s"].items():
            solver_s[k] = solver_s.get(k, 0.0) + v
        for k, v in r["prims_seen"].items():
            prims_seen[k] = prims_seen.get(k, 0) + v
        for k, v in r["kernel_calls"].items():
            kernel_calls[k] = kernel_calls.get(k, 0) + v
        inherited.update(re.sub(r"#\d+", "#", x) for x in r["inherited"])
        for leaf in (r.get("audit") or {}).get("uncovered_outputs") or []:
            uncovered.setdefault(r["contract"], set()).add(leaf)
        selfcheck_pts += r["selfcheck"].get("points", 0)
        selfcheck_err = max(selfcheck_err, r["selfcheck"].get("max_rel_err", 0.0))
        if len(samples) < 4:
            for s in r["samples"][:1]:
                samples.append({"function": r["contract"], "instance": r["instance"], "obligation_check": _shorten(s)})
        for f in r["failed"]:
            ident = f"{r['contract']}::{f['obligation']}"
            hit = next((k for k in known if re.search(k["pattern"], ident)), None)
            if hit:
                known_hits.setdefault(hit["pattern"], {"what": hit["what"], "count": 0, "example": ident})
                known_hits[hit["pattern"]]["count"] += 1
                obligations -= 1  # known-finding obligations are counted separately
                fn["obligations"] -= 1
            else:
                violations.append({"contract": r["contract"], "instance": r["instance"], **f})
        for u in r["undecided"]:
            undecided.append({"contract": r["contract"], "instance": r["instance"], **u})
    for e in extra_results:
        obligations += e.get("obligations", 0)
        discharged += e.get("discharged", 0)
        for k, v in e.get("by_backend", {}).items():
            by_backend[k] = by_backend.get(k, 0) + v
        for v in e.get("violations", []):
            ident = f"{v.get('contract','extra')}::{v.get('obligation','')}"
            hit = next((k for k in known if re.search(k["pattern"], ident)), None)
            if hit:
                known_hits.setdefault(hit["pattern"], {"what": hit["what"], "count": 0, "example": ident})
                known_hits[hit["pattern"]]["count"] += 1
                obligations -= 1
            else:
                violations.append(v)
        undecided.extend(e.get("undecided", []))
        errors.extend(e.get("errors", []))
        samples.extend(e.get("samples", [])[:2])
        for k, v in e.get("functions", {}).items():
            functions[k] = v

    wall = time.time() - t0
    os.makedirs(os.path.join(HERE, "replays"), exist_ok=True)
    exit_code = 0
    lines = []
    for pat, h in known_hits.items():
        lines.append(f"KNOWN-FINDING: property={pid} {h['what']} [{h['count']} obligation(s), e.g. {h['example']}]")
    for v in violations:
        tag = hashlib.sha1((v["contract"] + v.get("instance", "") + v["obligation"]).encode()).hexdigest()[:10]
        path = os.path.join(HERE, "replays", f"{pid}_{tag}.json")
        native = v.get("native") or {}
        confirmed = bool(native.get("violated"))
        payload = {
            "property": pid,
            "contract": v["contract"],
            "instance": v.get("instance"),
            "failed_obligation": v["obligation"],
            "reason": v.get("reason"),
            "verifier_output": v.get("detail"),
            "numeric_triage": {k: v.get(k) for k in ("numeric_worst", "witness", "triage_error") if k in v},
            "native_replay": native,
            "tier": tier,
            "seed": seed,
            "replay_cmd": f"./check {pid} --replay {path}",
        }
        with open(path, "w") as fh:
            json.dump(payload, fh, indent=1, default=str)
        suffix = "" if confirmed else " no-failing-input-found"
        lines.append(f"VIOLATION property={pid} replay={path}{suffix}")
        lines.append(f"  failed obligation: {v['contract']} [{v.get('instance')}] {v['obligation']} ({v.get('reason')})")
        exit_code = 1
    if errors:
        for e in errors[:10]:
            lines.append(f"CHECKER-ERROR property={pid} {e.get('contract')} [{e.get('instance')}]: {str(e.get('error'))[-600:]}")
        if exit_code == 0:
            exit_code = 3
    if undecided and exit_code == 0:
        for u in undecided[:10]:
            lines.append(f"UNDECIDED property={pid} {u['contract']} [{u.get('instance')}] {u['obligation']}: holds at all sampled points but no certificate was found")
        exit_code = 2
    if obligations == 0 and exit_code == 0:
        lines.append(f"CHECKER-ERROR property={pid} zero obligations generated")
        exit_code = 3

    level = getattr(mod, "LEVEL", "proof")
    cov = {
        "obligations": obligations,
        "discharged": discharged,
        "checker_cmd": f"./check {pid} --tier {tier}",
        "trusted_base": getattr(mod, "TRUSTED_BASE", []) + TRUSTED_COMMON,
        "discharged_by_backend": by_backend,
        "solver_seconds": {k: round(v, 2) for k, v in solver_s.items()},
        "functions_under_contract": functions,
        "shape_instances": sorted({f"{r['contract'].split(':')[-1]}[{r['instance']}]" for r in results}),
        "inherited_kernel_preconditions": sorted(inherited),
        "kernel_axioms_used": kernel_calls,
        "jaxpr_primitives_interpreted": prims_seen,
        "selfcheck": {"points": selfcheck_pts, "max_rel_err": selfcheck_err},
        "result_leaves_not_mentioned_by_any_postcondition(audit, thorough tier)": {k: sorted(v) for k, v in sorted(uncovered.items())},
        "known_finding_obligations": {p: h["count"] for p, h in known_hits.items()},
        "undecided": len(undecided),
        "samples": samples or [{"note": "no sample recorded"}],
        "explanation": getattr(mod, "EXPLANATION", ""),
    }
    if hasattr(mod, "coverage_extra"):
        cov.update(mod.coverage_extra(tier, results, extra_results))
    ev = {
        "property_id": pid,
        "tier": tier,
        "seed": seed,
        "level": level,
        "coverage": cov,
        "assumptions": getattr(mod, "ASSUMPTIONS", []) + ASSUMPTIONS_COMMON,
        "wall_s": round(wall, 2),
        "violations": len(violations),
    }
    if write:
        os.makedirs(os.path.join(HERE, "evidence"), exist_ok=True)
        with open(os.path.join(HERE, "evidence", f"{pid}.json"), "w") as fh:
            json.dump(ev, fh, indent=1, default=str)
    for ln in lines:
        print(ln)
    print(
        f"{pid} [{tier}] obligations={obligations} discharged={discharged} backends={by_backend} "
        f"functions={len(functions)} instances={len(results)} known={sum(h['count'] for h in known_hits.values())} "
        f"violations={len(violations)} undecided={len(undecided)} errors={len(errors)} wall={wall:.1f}s exit={exit_code}"
    )
    return exit_code


def _shorten(s):
    if isinstance(s, dict):
        return {k: (v if not isinstance(v, str) or len(v) < 1500 else v[:1500] + "...") for k, v in s.items()}
    return s


TRUSTED_COMMON = [
    "CPython + jax.make_jaxpr as the mechanical extractor of the real function's program",
    "vcgen.interp: semantics of the interpreted lax primitives (elementwise by definition, data movement by index tracing with the real primitive)",
    "kernel contracts (axioms) for qr_r / solve_triu / solve_tril / solve_lu / lstsq_svd / hypot / random.*; validated numerically at the self-check points on every run, not proved; linear solves are memoised up to the sign of the right-hand side (solve(A,-b) = -solve(A,b)). The assumption is about the JAX routine (jnp.linalg.qr/lstsq/solve, jax.scipy.linalg.solve_triangular, jnp.hypot at their default tolerances, jax.random.PRNGKey/split/normal/rademacher); the repository's wrapper around it is under a delegation contract (contracts/backend.py: same operands in the same order, documented options, result returned unchanged) that every check discharges for each kernel its units used. qr_r's custom JVP rule is not covered by a delegation contract (C16 has its own contract for it)",
    "specification-only ghost kernels: ghost_inverse (two-sided inverse; its existence is an inherited precondition), ghost_parent (the kernel output a block was cut from), lstsq row-space witness",
    "axioms about elementary functions used in SMT queries: sqrt/abs/sign/min/max definitions, guarded reciprocals, sign and monotonicity facts of real powers, 2-ulp enclosures of logarithms of constants, b^e >= r <=> e log b >= log r for constant b > 1, bracketing of ceil/floor (integrality not modelled)",
    "uninterpreted functions (vector fields, constraints, Taylor-point rules) with uninterpreted Jacobians: instances are treated as independent symbols (no congruence axiom): sound for proofs, counter-models are checked for functional consistency before they are accepted",
    "vcgen.poly / vcgen.cert: exact rational polynomial arithmetic used to *find* certificates (the certificates themselves are re-checked by z3 and cvc5)",
    "z3 5.1 (python wheel) and cvc5 1.0.3 (CLI)",
    "harness glue that builds the symbolic input objects for each shape instance",
]

ASSUMPTIONS_COMMON = [
    "machine arithmetic treated as mathematical: every float is a real number; float literals within 1e-13 (relative) of a rational with denominator <= 10^6 are read as that rational (constants the code computes in floating point, e.g. factorials and binomial coefficients through exp(lgamma), are idealised), all other literals at their exact binary value; rounding, overflow, NaN/inf propagation are outside the claim",
    "proofs are per shape instance (listed under coverage.shape_instances); within an instance they hold for all real values of every array entry",
    "divisions are by quantities assumed non-zero (listed per function as inherited kernel preconditions or positivity requires)",
]

if __name__ == "__main__":
    sys.exit(main())
