"""Opaque JAX primitive used for (a) numerical kernels, (b) repo callees under contract and
(c) uninterpreted functions; plus the stubs that install them into freshly imported repo modules.

In *symbolic mode* (``MODE.symbolic``) a stub binds the opaque primitive, so the jaxpr of the
caller contains ``vc_opaque[name=...]`` instead of the callee's body.  Outside symbolic mode the
stub calls the original function, so native (float64) runs of the same modules are unpatched.
"""

from __future__ import annotations

import functools

import jax
import jax.numpy as jnp
import numpy as np
from jax.extend import core as jex_core
from jax.interpreters import batching, mlir

from . import interp
from . import poly as P
from .poly import V


class _Mode:
    symbolic = False


MODE = _Mode()


class symbolic_mode:
    def __enter__(self):
        self.prev = MODE.symbolic
        MODE.symbolic = True

    def __exit__(self, *a):
        MODE.symbolic = self.prev


class Static:
    """Hashable-by-identity wrapper for non-array arguments carried in primitive params."""

    def __init__(self, value):
        self.value = value

    def __hash__(self):
        return id(self.value)

    def __eq__(self, other):
        return isinstance(other, Static) and other.value is self.value

    def __repr__(self):
        return f"Static({type(self.value).__name__})"


vc_opaque_p = jex_core.Primitive("vc_opaque")
vc_opaque_p.multiple_results = True


@vc_opaque_p.def_abstract_eval
def _abstract(*args, name, out_avals, **_):
    return list(out_avals)


def _impl(*args, **params):
    raise RuntimeError("vc_opaque has no implementation: it only exists inside jaxprs")


vc_opaque_p.def_impl(_impl)


def _batch_rule(args, dims, *, name, out_avals, batch, **params):
    size = None
    moved = []
    flags = []
    for a, d in zip(args, dims):
        if d is None:
            moved.append(a)
            flags.append(False)
        else:
            size = a.shape[d]
            moved.append(jnp.moveaxis(a, d, 0))
            flags.append(True)
    new_out = tuple(
        jax.core.ShapedArray((size,) + tuple(av.shape), av.dtype) for av in out_avals
    )
    outs = vc_opaque_p.bind(
        *moved, name=name, out_avals=new_out, batch=batch + (tuple(flags),), **params
    )
    return outs, [0] * len(outs)


batching.primitive_batchers[vc_opaque_p] = _batch_rule


def bind_opaque(name, arrays, out_shapes, **params):
    out_avals = tuple(jax.core.ShapedArray(tuple(s.shape), s.dtype) for s in out_shapes)
    arrays = [jnp.asarray(a) for a in arrays]
    return vc_opaque_p.bind(*arrays, name=name, out_avals=out_avals, batch=(), **params)


# ---------------------------------------------------------------------------------------
# symbolic-side dispatch
# ---------------------------------------------------------------------------------------

BASE_HANDLERS: dict = {}  # name -> fn(ctx, params, *operands) -> list of outputs (unbatched)


def _opaque_eval(ctx, eqn, *ins):
    prm = dict(eqn.params)
    name = prm.pop("name")
    batch = prm.pop("batch")
    prm.pop("out_avals")
    base = BASE_HANDLERS.get(name.split("::")[0]) or BASE_HANDLERS.get(name)
    if base is None:
        raise interp.Unsupported(f"no contract for opaque primitive '{name}'")
    prm["name"] = name

    def rec(level, ops):
        if level < 0 and name in ODD_IN_LAST_OPERAND and interp.is_obj(ops[-1]) and _leading_sign(ops[-1]) < 0:
            # solve(A, -b) = -solve(A, b): evaluate (and memoise) the call on the sign-canonical right-hand side, so
            # that a specification and an implementation that differ only in the sign convention of a residual
            # share the same solution symbols
            neg = np.empty(ops[-1].shape, dtype=object)
            for ix in np.ndindex(*neg.shape):
                neg[ix] = -ops[-1][ix]
            outs = rec(level, list(ops[:-1]) + [neg])
            flipped = []
            for o in outs:
                f = np.empty(np.shape(o), dtype=object)
                for ix in np.ndindex(*f.shape):
                    f[ix] = -o[ix]
                flipped.append(f)
            return flipped
        if level < 0:
            key = _memo_key(name, prm, ops)
            hit = _MEMO.get(key) if key is not None else None
            if hit is not None and (not hit[0] or [b.key() for b in hit[0]] == [b.key() for b in ctx.path[: len(hit[0])]]):
                return hit[1]
            outs = base(ctx, prm, *ops)
            if key is not None:
                _MEMO[key] = (list(ctx.path), outs)
            return outs
        flags = batch[level]
        size = None
        for o, f in zip(ops, flags):
            if f:
                size = o.shape[0]
        results = []
        for i in range(size):
            sub = [o[i] if f else o for o, f in zip(ops, flags)]
            sub = [interp._ensure_array(s) for s in sub]
            results.append(rec(level - 1, sub))
        outs = []
        for k in range(len(results[0])):
            parts = [r[k] for r in results]
            if any(interp.is_obj(p) for p in parts):
                arr = np.empty((size,) + np.shape(parts[0]), dtype=object)
                for i, p in enumerate(parts):
                    arr[i] = p if interp.is_obj(p) else interp.to_obj(p)
            else:
                arr = np.stack([np.asarray(p) for p in parts])
            outs.append(arr)
        return outs

    return rec(len(batch) - 1, list(ins))


interp.OPAQUE["vc_opaque"] = _opaque_eval

ODD_IN_LAST_OPERAND = {"solve_triu", "solve_tril", "solve_lu"}


def _leading_sign(arr):
    """Sign of the canonical leading coefficient of the first non-zero entry (deterministic)."""
    for x in arr.reshape(-1):
        if isinstance(x, V) and not x.p.is_zero():
            m = min(x.p.t, key=lambda mono: repr(mono))
            return 1 if x.p.t[m] > 0 else -1
    return 1

_MEMO: dict = {}


def _operand_key(o):
    if interp.is_obj(o):
        return (o.shape, tuple(x.p.key() if isinstance(x, V) else x.key() for x in o.reshape(-1)))
    a = np.asarray(o)
    return (a.shape, a.dtype.str, a.tobytes())


def treedef_key(td):
    """Structural key of a treedef: node types (and dict keys) only, no aux data identity."""
    nd = td.node_data()
    if nd is None:
        return "*" if td.num_leaves == 1 else "none"
    typ, aux = nd
    extra = tuple(aux) if typ is dict else ()
    return (getattr(typ, "__name__", str(typ)), extra, tuple(treedef_key(c) for c in td.children()))


def _memo_key(name, prm, ops):
    """Opaque calls are deterministic functions of their arguments: same arguments, same symbols."""
    st = prm.get("static")
    if isinstance(st, Static):
        info = st.value
        if not isinstance(info, dict) or "contract" not in info:
            return None
        statics = tuple(
            (i, l if isinstance(l, (int, float, str, bool, type(None))) else id(l))
            for i, l in enumerate(info["leaves"])
            if i not in info["arr_idx"]
        )
        skey = (info["contract"].name, treedef_key(info["treedef"]), treedef_key(info["out_tree"]) if "out_tree" in info else None, statics)
    else:
        try:
            hash(st)
            skey = st
        except TypeError:
            return None
    return (name, skey, tuple(_operand_key(o) for o in ops))


# ---------------------------------------------------------------------------------------
# records for numeric replay of opaque calls
# ---------------------------------------------------------------------------------------

CALL_LOG: list = []  # {name, native: callable(*np arrays)->list of np arrays, operands, out_sids}


def reset():
    CALL_LOG.clear()
    _UF_CACHE.clear()
    _MEMO.clear()
    _LSTSQ_Z.clear()


def fresh_array(shape, name, *, mask=None, kind="kernel", **flags):
    out = np.empty(shape, dtype=object)
    sids = np.full(shape, -1, dtype=np.int64)
    for ix in np.ndindex(*shape):
        if mask is not None and not mask(ix):
            out[ix] = P.ZERO
            continue
        v = P.fresh(f"{name}{list(ix)}".replace(" ", ""), kind=kind, **flags)
        out[ix] = v
        sids[ix] = P._sid(v)
    return out, sids


def _count(name):
    n = sum(1 for c in CALL_LOG if c["name"] == name)
    return n


# ---- kernel contracts (the axioms) ---------------------------------------------------------

KERNEL_DOC = {
    "qr_r": "R = qr_r(M): R upper-triangular (trapezoidal) and R^T R = M^T M; no sign convention",
    "solve_triu": "x = solve_triu(A,b,trans): requires diag(A) != 0 (inherited); ensures op(triu(A)) x = b",
    "solve_tril": "x = solve_tril(A,b,trans): requires diag(A) != 0 (inherited); ensures op(tril(A)) x = b",
    "solve_lu": "x = solve_lu(A,b): requires A invertible (inherited); ensures A x = b",
    "lstsq_svd": "x = lstsq_svd(H,r): ensures H^T H x = H^T r and x = H^T z (minimum norm, ghost z)",
    "ghost_inverse": "V = ghost_inverse(A) (specification only): requires A invertible (inherited); ensures V A = I and A V = I",
    "hypot": "h = hypot(a,b): h >= 0 and h^2 = a^2 + b^2",
    "normal": "random.normal(key, shape): fresh real symbols xi (one per entry and call)",
    "rademacher": "random.rademacher(key, shape): fresh symbols v with v^2 = 1",
    "split": "random.split(key, num): opaque keys",
    "prng_key": "random.prng_key(seed): opaque key",
}


def k_qr_r(ctx, prm, M):
    m, n = M.shape
    k = min(m, n)
    cid = _count("qr_r")
    R, sids = fresh_array((k, n), f"R{cid}", mask=lambda ix: ix[0] <= ix[1])
    CALL_LOG.append({"name": "qr_r", "operands": [M], "out_sids": [sids], "native": lambda a: [np.asarray(ORIG["qr_r"](jnp.asarray(a)))]})
    M = M if interp.is_obj(M) else interp.to_obj(M)
    for i in range(n):
        for j in range(i, n):
            lhs = P.ZERO
            for l in range(min(i, k - 1) + 1):
                lhs = lhs + R[l, i] * R[l, j]
            rhs = P.ZERO
            for l in range(m):
                a, b = M[l, i], M[l, j]
                if a.p.is_zero() or b.p.is_zero():
                    continue
                rhs = rhs + a * b
            ctx.assume_eq(f"qr_r#{cid}.gram[{i},{j}]", lhs - rhs)
    return [R]


def _tri_solve(kind):
    def h(ctx, prm, A, b):
        trans = prm["static"][0]
        trans = 1 if trans in (1, "T", "t") else 0
        n = A.shape[0]
        cid = _count(kind)
        A = A if interp.is_obj(A) else interp.to_obj(A)
        b = b if interp.is_obj(b) else interp.to_obj(b)
        vec = b.ndim == 1
        b2 = b.reshape(n, 1) if vec else b
        X, sids = fresh_array(b2.shape, f"X{kind[-1]}{cid}")
        upper = kind == "solve_triu"
        T = np.empty((n, n), dtype=object)
        for i in range(n):
            for j in range(n):
                keep = (j >= i) if upper else (j <= i)
                T[i, j] = A[i, j] if keep else P.ZERO
        Top = T.T if trans else T
        for i in range(n):
            ctx.oblige_bool(f"{kind}#{cid}.diag_nonzero[{i}]", P.cmp0("ne", A[i, i]), side="kernel-precondition")
            for c in range(b2.shape[1]):
                lhs = P.ZERO
                for l in range(n):
                    if not Top[i, l].p.is_zero():
                        lhs = lhs + Top[i, l] * X[l, c]
                ctx.assume_eq(f"{kind}#{cid}.eq[{i},{c}]", lhs - b2[i, c])
        orig = ORIG[kind]
        CALL_LOG.append({"name": kind, "operands": [A, b], "out_sids": [sids.reshape(b.shape)], "native": lambda a, bb, _t=prm["static"][0]: [np.asarray(orig(jnp.asarray(a), jnp.asarray(bb), trans=_t))]})
        return [X.reshape(b.shape)]

    return h


def k_solve_lu(ctx, prm, A, b):
    n = A.shape[0]
    cid = _count("solve_lu")
    A = A if interp.is_obj(A) else interp.to_obj(A)
    b = b if interp.is_obj(b) else interp.to_obj(b)
    vec = b.ndim == 1
    b2 = b.reshape(n, 1) if vec else b
    X, sids = fresh_array(b2.shape, f"Xlu{cid}")
    ctx.oblige_bool(f"solve_lu#{cid}.invertible", P.B("opaque-invertible"), side="kernel-precondition")
    for i in range(n):
        for c in range(b2.shape[1]):
            lhs = P.ZERO
            for l in range(n):
                if not A[i, l].p.is_zero():
                    lhs = lhs + A[i, l] * X[l, c]
            ctx.assume_eq(f"solve_lu#{cid}.eq[{i},{c}]", lhs - b2[i, c])
    CALL_LOG.append({"name": "solve_lu", "operands": [A, b], "out_sids": [sids.reshape(b.shape)], "native": lambda a, bb: [np.asarray(ORIG["solve_lu"](jnp.asarray(a), jnp.asarray(bb)))]})
    return [X.reshape(b.shape)]


def k_lstsq_svd(ctx, prm, H, r):
    m, n = H.shape
    cid = _count("lstsq_svd")
    H = H if interp.is_obj(H) else interp.to_obj(H)
    r = r if interp.is_obj(r) else interp.to_obj(r)
    vec = r.ndim == 1
    r2 = r.reshape(m, 1) if vec else r
    c = r2.shape[1]
    X, sids = fresh_array((n, c), f"Xls{cid}")
    Z, zsids = fresh_array((m, c), f"Zls{cid}")
    HtH = interp.h_dot_general(None, _FakeEqn(((0,), (0,)), ((), ())), H, H)
    Htr = interp.h_dot_general(None, _FakeEqn(((0,), (0,)), ((), ())), H, r2)
    HtHX = interp.h_dot_general(None, _FakeEqn(((1,), (0,)), ((), ())), HtH, X)
    HtZ = interp.h_dot_general(None, _FakeEqn(((0,), (0,)), ((), ())), H, Z)
    for i in range(n):
        for j in range(c):
            ctx.assume_eq(f"lstsq_svd#{cid}.normal[{i},{j}]", HtHX[i, j] - Htr[i, j])
            ctx.assume_eq(f"lstsq_svd#{cid}.rowspace[{i},{j}]", X[i, j] - HtZ[i, j])

    def native(h, rr):
        x = np.asarray(ORIG["lstsq_svd"](jnp.asarray(h), jnp.asarray(rr)))
        x2 = x.reshape(n, -1)
        z = np.linalg.lstsq(np.asarray(h).T, x2, rcond=None)[0]
        return [x, z]

    CALL_LOG.append({"name": "lstsq_svd", "operands": [H, r], "out_sids": [sids.reshape((n,) if vec else (n, c)), zsids], "native": native})
    _LSTSQ_Z[(_operand_key(H), _operand_key(r))] = Z.reshape((m,) if vec else (m, c))
    return [X.reshape((n,) if vec else (n, c))]


_LSTSQ_Z: dict = {}


def k_lstsq_z(ctx, prm, H, r):
    """Ghost: the witness z with x = H^T z of the lstsq_svd call on the same arguments."""
    H = H if interp.is_obj(H) else interp.to_obj(H)
    r = r if interp.is_obj(r) else interp.to_obj(r)
    key = (_operand_key(H), _operand_key(r))
    if key not in _LSTSQ_Z:
        k_lstsq_svd(ctx, prm, H, r)
    return [_LSTSQ_Z[key]]


def lstsq_row_space_witness(H, r):
    if not MODE.symbolic:
        x = ORIG["lstsq_svd"](H, r)
        return jnp.linalg.lstsq(H.T, x)[0]
    m = H.shape[0]
    return bind_opaque("lstsq_z", [H, r], [jax.ShapeDtypeStruct((m,) + tuple(jnp.shape(r)[1:]), jnp.result_type(float))], static=())[0]


def k_ghost_inverse(ctx, prm, A):
    """Ghost (specification only): a two-sided inverse V of the square matrix A.  Its existence is a
    kernel-precondition obligation (inherited by the contract that uses it: 'A is non-singular')."""
    n = A.shape[0]
    cid = _count("ghost_inverse")
    A = A if interp.is_obj(A) else interp.to_obj(A)
    X, sids = fresh_array((n, n), f"Vinv{cid}")
    ctx.oblige_bool(f"ghost_inverse#{cid}.invertible", P.B("opaque-invertible"), side="kernel-precondition")
    for i in range(n):
        for j in range(n):
            left, right = P.ZERO, P.ZERO
            for l in range(n):
                left = left + X[i, l] * A[l, j]
                right = right + A[i, l] * X[l, j]
            one = P.ONE_V if i == j else P.ZERO
            ctx.assume_eq(f"ghost_inverse#{cid}.left[{i},{j}]", left - one)
            ctx.assume_eq(f"ghost_inverse#{cid}.right[{i},{j}]", right - one)
    CALL_LOG.append({"name": "ghost_inverse", "operands": [A], "out_sids": [sids], "native": lambda a: [np.linalg.inv(np.asarray(a))]})
    return [X]


def k_ghost_parent(ctx, prm, A):
    """Ghost (specification only): the full output of the kernel call from which the block A was cut
    (A must literally be the leading block of that output).  Lets a specification talk about 'the triangular
    factor R_Y was taken from' without repeating how the code assembled the kernel's argument."""
    kernel, shape = prm["static"]
    A = A if interp.is_obj(A) else interp.to_obj(A)
    sid = None
    for x in A.reshape(-1):
        if isinstance(x, V) and not x.p.is_zero():
            st = x.p.single_term()
            if st is None or len(st[0]) != 1 or st[0][0][1] != 1 or st[1] != 1:
                raise interp.Unsupported("ghost_parent: the block is not a literal kernel output")
            sid = st[0][0][0]
            break
    if sid is None:
        raise interp.Unsupported("ghost_parent: the block is identically zero")
    for rec in CALL_LOG:
        if rec["name"] != kernel:
            continue
        sids = np.asarray(rec["out_sids"][0])
        if sid in sids and tuple(sids.shape) == tuple(shape):
            full = np.empty(sids.shape, dtype=object)
            for ix in np.ndindex(*sids.shape):
                full[ix] = P.sym_v(int(sids[ix])) if sids[ix] >= 0 else P.ZERO
            blk = full[tuple(slice(0, k) for k in A.shape)]
            for a, b in zip(A.reshape(-1), blk.reshape(-1)):
                if (a - b).p.is_zero() is False:
                    raise interp.Unsupported("ghost_parent: the block is not the leading block of the kernel output")
            return [full]
    raise interp.Unsupported(f"ghost_parent: no {kernel} call of shape {shape} produced this block")


def ghost_parent(A, kernel, shape):
    """Symbolic mode only (callers provide their own native fallback)."""
    return bind_opaque("ghost_parent", [A], [jax.ShapeDtypeStruct(tuple(shape), jnp.result_type(float))], static=(kernel, tuple(shape)))[0]


def ghost_inverse(A):
    if not MODE.symbolic:
        return jnp.linalg.inv(A)
    n = A.shape[0]
    return bind_opaque("ghost_inverse", [A], [jax.ShapeDtypeStruct((n, n), jnp.result_type(float))], static=())[0]


class _FakeEqn:
    def __init__(self, contract, batch):
        self.params = {"dimension_numbers": (contract, batch)}


def k_hypot(ctx, prm, a, b):
    return [interp.map_obj(P.hypot, a, b)]


# the random kernels are the jax.random routines themselves (resolved once: contracts/backend.py patches the module
# attributes while it traces the repository's wrappers, which are under delegation contracts there)
_JR = {"prng_key": jax.random.PRNGKey, "split": jax.random.split, "normal": jax.random.normal, "rademacher": jax.random.rademacher}


def k_prng_key(ctx, prm):
    seed = prm["static"][0]
    return [np.asarray(_JR["prng_key"](seed))]


def k_split(ctx, prm, key):
    num = prm["static"][0]
    return [np.asarray(_JR["split"](jnp.asarray(np.asarray(key)), num))]


def k_normal(ctx, prm, key):
    shape = tuple(prm["static"][0])
    kid = tuple(int(x) for x in np.asarray(key).reshape(-1))
    cid = _count("normal")
    out, sids = fresh_array(shape, f"xi{cid}_", kind="draw")
    kk = np.asarray(key)
    CALL_LOG.append({"name": "normal", "operands": [], "out_sids": [sids], "key": kid,
                     "native": lambda _k=kk, _s=shape: [np.asarray(_JR["normal"](jnp.asarray(_k), shape=_s, dtype=jnp.float64))]})
    return [out]


def k_rademacher(ctx, prm, key):
    shape = tuple(prm["static"][0])
    kid = tuple(int(x) for x in np.asarray(key).reshape(-1))
    cid = _count("rademacher")
    out, sids = fresh_array(shape, f"v{cid}_", kind="rademacher")
    for s in sids.reshape(-1):
        P.POWER_RULES[int(s)] = (2, P.Poly.const(1))
    kk = np.asarray(key)
    CALL_LOG.append({"name": "rademacher", "operands": [], "out_sids": [sids], "key": kid,
                     "native": lambda _k=kk, _s=shape: [np.asarray(_JR["rademacher"](jnp.asarray(_k), shape=_s, dtype=jnp.float64))]})
    return [out]


BASE_HANDLERS.update(
    {
        "qr_r": k_qr_r,
        "solve_triu": _tri_solve("solve_triu"),
        "solve_tril": _tri_solve("solve_tril"),
        "solve_lu": k_solve_lu,
        "lstsq_svd": k_lstsq_svd,
        "lstsq_z": k_lstsq_z,
        "ghost_inverse": k_ghost_inverse,
        "ghost_parent": k_ghost_parent,
        "hypot": k_hypot,
        "prng_key": k_prng_key,
        "split": k_split,
        "normal": k_normal,
        "rademacher": k_rademacher,
    }
)


# ---------------------------------------------------------------------------------------
# uninterpreted functions ("for every vector field")
# ---------------------------------------------------------------------------------------

_UF_CACHE: dict = {}
UF_NATIVE: dict = {}  # name -> concrete python function used for native replays


def _uf_handler(part):
    def h(ctx, prm, *xs):
        name = prm["name"].split("::", 1)[1]
        out_shape = prm["static"][0]
        xs = [x if interp.is_obj(x) else interp.to_obj(x) for x in xs]
        key = (part, name, tuple(v.p.key() for x in xs for v in x.reshape(-1)))
        hit = _UF_CACHE.get(key)
        if hit is None:
            cid = len(_UF_CACHE)
            hit, sids = fresh_array(tuple(out_shape), f"{part}_{name}_{cid}_", kind="uf")
            _UF_CACHE[key] = hit
            nat = UF_NATIVE.get((part, name))
            CALL_LOG.append({"name": f"{part}::{name}", "operands": list(xs), "out_sids": [sids], "native": (lambda *a, _n=nat: [np.asarray(_n(*[jnp.asarray(v) for v in a]))]) if nat else None})
        return [hit]

    return h


BASE_HANDLERS["uf"] = _uf_handler("uf")
BASE_HANDLERS["ufjac"] = _uf_handler("ufjac")
BASE_HANDLERS["ufdt"] = _uf_handler("ufdt")


def make_uf(name, in_shapes, out_shape, native=None, time_arg=True):
    """Uninterpreted function  f(*xs, t) -> array(out_shape)  with uninterpreted Jacobians.

    The JVP rule is  sum_k J_k(xs,t) . dx_k + f_t(xs,t) dt  where J_k and f_t are further
    uninterpreted functions of the same arguments, so that anything JAX derives (jacfwd, jacrev,
    linearize, vjp) is expressed through the same symbols the specification uses.
    ``native`` is a concrete smooth function used only for float64 replays.
    """
    out_shape = tuple(out_shape)
    nx = len(in_shapes)

    def prim(part, shape):
        def call(*args):
            if not MODE.symbolic:
                return UF_NATIVE[(part, name)](*args)
            sds = [jax.ShapeDtypeStruct(shape, jnp.result_type(float))]
            (o,) = bind_opaque(f"{part}::{name}", args, sds, static=(shape,))
            return o

        return call

    f_raw = prim("uf", out_shape)
    jac_raws = [prim(f"ufjac{k}", out_shape + tuple(in_shapes[k])) for k in range(nx)]
    dt_raw = prim("ufdt", out_shape)
    for k in range(nx):
        BASE_HANDLERS[f"ufjac{k}"] = _uf_handler(f"ufjac{k}")

    if native is not None:
        UF_NATIVE[("uf", name)] = native
        for k in range(nx):
            UF_NATIVE[(f"ufjac{k}", name)] = jax.jacfwd(native, argnums=k)
        if time_arg:
            UF_NATIVE[("ufdt", name)] = jax.jacfwd(native, argnums=nx)

    @jax.custom_jvp
    def f(*args):
        return f_raw(*args)

    @f.defjvp
    def f_jvp(primals, tangents):
        y = f(*primals)
        dy = jnp.zeros(out_shape)
        for k in range(nx):
            J = jac_raws[k](*primals)
            tk = tangents[k]
            nd = len(in_shapes[k])
            dy = dy + jnp.tensordot(J, tk, axes=nd) if nd else dy + J * tk
        if time_arg:
            dy = dy + dt_raw(*primals) * tangents[nx]
        return y, dy

    f.jac = jac_raws
    f.dt = dt_raw
    f.raw = f_raw
    return f


class uf_interpolant:
    """Context manager: replaces the native stand-in of an uninterpreted function by a smooth function that takes
    prescribed values (and first derivatives) at finitely many points (a solver counter-model), so that the
    counterexample can be replayed on the real code with a concrete function."""

    def __init__(self, table):
        self.table = table  # list of dicts: part, name, args (list of arrays), out (array)
        self.saved = {}

    def __enter__(self):
        by_name = {}
        for e in self.table:
            by_name.setdefault(e["name"], []).append(e)
        for name, entries in by_name.items():
            orig = UF_NATIVE.get(("uf", name))
            if orig is None:
                continue
            vals = [e for e in entries if e["part"] == "uf"]
            jacs = [e for e in entries if e["part"].startswith("ufjac") or e["part"] == "ufdt"]
            pts = []  # distinct points (flattened concatenation of all arguments)
            def flat(args):
                return np.concatenate([np.ravel(np.asarray(a, dtype=np.float64)) for a in args])
            for e in vals + jacs:
                z = flat(e["args"])
                if not any(np.allclose(z, q, rtol=0, atol=1e-12) for q in pts):
                    pts.append(z)
            if len(pts) > 1:
                dmin = min(np.linalg.norm(a - b) for i, a in enumerate(pts) for b in pts[i + 1 :])
            else:
                dmin = 1.0
            width = max(dmin, 1e-9) / 40.0  # cross-talk between neighbouring points: exp(-800)
            shapes = [np.shape(a) for a in (vals + jacs)[0]["args"]]
            sizes = [int(np.prod(sh)) if sh else 1 for sh in shapes]
            nx = len(shapes)
            corrections = []
            for z in pts:
                args = _split(z, shapes, sizes)
                base = np.asarray(orig(*[jnp.asarray(a) for a in args]))
                dv = np.zeros_like(base)
                for e in vals:
                    if np.allclose(flat(e["args"]), z, rtol=0, atol=1e-12):
                        dv = np.asarray(e["out"], dtype=np.float64).reshape(base.shape) - base
                dJ = [np.zeros(base.shape + sh) for sh in shapes]
                for e in jacs:
                    if np.allclose(flat(e["args"]), z, rtol=0, atol=1e-12):
                        k = nx - 1 if e["part"] == "ufdt" else int(e["part"][5:])
                        Jb = np.asarray(jax.jacfwd(orig, argnums=k)(*[jnp.asarray(a) for a in args]))
                        dJ[k] = np.asarray(e["out"], dtype=np.float64).reshape(Jb.shape) - Jb
                corrections.append((z, dv, dJ))

            def new(*args, _orig=orig, _corr=corrections, _shapes=shapes, _w=width):
                zz = jnp.concatenate([jnp.ravel(jnp.asarray(a, dtype=jnp.float64)) for a in args])
                out = _orig(*args)
                for z, dv, dJ in _corr:
                    bump = jnp.exp(-jnp.sum((zz - z) ** 2) / (2 * _w * _w))
                    lin = dv
                    off = 0
                    for k, sh in enumerate(_shapes):
                        n = int(np.prod(sh)) if sh else 1
                        delta = (zz[off : off + n] - z[off : off + n]).reshape(sh)
                        lin = lin + (jnp.tensordot(jnp.asarray(dJ[k]), delta, axes=len(sh)) if sh else jnp.asarray(dJ[k]) * delta)
                        off += n
                    out = out + bump * lin
                return out

            for key in [("uf", name)] + [(f"ufjac{k}", name) for k in range(nx)] + [("ufdt", name)]:
                if key in UF_NATIVE:
                    self.saved[key] = UF_NATIVE[key]
            UF_NATIVE[("uf", name)] = new
            has_dt = ("ufdt", name) in self.saved
            for k in range(nx - 1 if has_dt else nx):
                if (f"ufjac{k}", name) in self.saved:
                    UF_NATIVE[(f"ufjac{k}", name)] = jax.jacfwd(new, argnums=k)
            if has_dt:
                UF_NATIVE[("ufdt", name)] = jax.jacfwd(new, argnums=nx - 1)
        return self

    def __exit__(self, *a):
        UF_NATIVE.update(self.saved)


def _split(z, shapes, sizes):
    out, off = [], 0
    for sh, n in zip(shapes, sizes):
        out.append(z[off : off + n].reshape(sh))
        off += n
    return out


# ---------------------------------------------------------------------------------------
# installing kernel stubs into the repo's backend (must run before the rest of the repo imports)
# ---------------------------------------------------------------------------------------

ORIG: dict = {}


def _kernel_stub(name, orig, static_from, out_like):
    @functools.wraps(orig)
    def stub(*args, **kwargs):
        if not MODE.symbolic:
            return orig(*args, **kwargs)
        arrays, static = static_from(*args, **kwargs)
        shapes = out_like(*args, **kwargs)
        outs = bind_opaque(name, arrays, shapes, static=static)
        return outs[0]

    stub.__vc_orig__ = orig
    return stub


def install_kernels():
    """Patch probdiffeq.backend.{linalg,np,random} in place with mode-switching stubs."""
    import probdiffeq.backend.linalg as L
    import probdiffeq.backend.np as NP
    import probdiffeq.backend.random as R

    if ORIG:
        return
    class _F64:  # resolved lazily: x64 may be enabled after the kernels are installed
        def __eq__(self, o):
            return False

    def sds(shape, dt=None):
        return jax.ShapeDtypeStruct(tuple(shape), dt or jnp.result_type(float))

    class _Lazy:
        pass

    f64 = None

    ORIG["qr_r"] = L.qr_r
    L.qr_r = _kernel_stub(
        "qr_r", L.qr_r, lambda a: ([a], ()), lambda a: [sds((min(a.shape), a.shape[1]))]
    )
    for nm in ("solve_triu", "solve_tril"):
        ORIG[nm] = getattr(L, nm)
        setattr(
            L,
            nm,
            _kernel_stub(
                nm,
                ORIG[nm],
                lambda A, b, trans=0: ([A, b], (trans,)),
                lambda A, b, trans=0: [sds(jnp.shape(b))],
            ),
        )
    ORIG["solve_lu"] = L.solve_lu
    L.solve_lu = _kernel_stub("solve_lu", L.solve_lu, lambda A, b: ([A, b], ()), lambda A, b: [sds(jnp.shape(b))])
    ORIG["lstsq_svd"] = L.lstsq_svd
    L.lstsq_svd = _kernel_stub(
        "lstsq_svd",
        L.lstsq_svd,
        lambda H, r: ([H, r], ()),
        lambda H, r: [sds((H.shape[1],) + tuple(jnp.shape(r)[1:]))],
    )
    ORIG["hypot"] = NP.hypot
    NP.hypot = _kernel_stub(
        "hypot",
        NP.hypot,
        lambda a, b: (list(jnp.broadcast_arrays(jnp.asarray(a, dtype=jnp.result_type(float)), jnp.asarray(b, dtype=jnp.result_type(float)))), ()),
        lambda a, b: [sds(jnp.broadcast_shapes(jnp.shape(a), jnp.shape(b)))],
    )
    # random
    ORIG["prng_key"] = R.prng_key
    ORIG["split"] = R.split
    ORIG["normal"] = R.normal
    ORIG["rademacher"] = R.rademacher
    u32 = jnp.uint32

    def prng_key(*, seed):
        if not MODE.symbolic:
            return ORIG["prng_key"](seed=seed)
        return bind_opaque("prng_key", [], [sds((2,), u32)], static=(seed,))[0]

    def split(key, num):
        if not MODE.symbolic:
            return ORIG["split"](key, num)
        return bind_opaque("split", [key], [sds((num, 2), u32)], static=(num,))[0]

    def normal(key, /, shape, dtype=None):
        if not MODE.symbolic:
            return ORIG["normal"](key, shape=shape, dtype=dtype)
        return bind_opaque("normal", [key], [sds(shape)], static=(tuple(shape),))[0]

    def rademacher(key, /, shape, dtype):
        if not MODE.symbolic:
            return ORIG["rademacher"](key, shape=shape, dtype=dtype)
        return bind_opaque("rademacher", [key], [sds(shape)], static=(tuple(shape),))[0]

    R.prng_key, R.split, R.normal, R.rademacher = prng_key, split, normal, rademacher
