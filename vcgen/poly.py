"""Exact sparse (Laurent) polynomials over Q, symbol table, atoms and the expression DAG.

A symbolic scalar is a ``V`` = (Poly normal form, DAG node id).  The Poly is what the
certificate finder works on; the DAG is the *un-normalised* record of the arithmetic the real
code performed and is what gets shipped to z3 / cvc5, so that the solvers check the algebra
independently of this file's normaliser.
"""

from __future__ import annotations

import math
from fractions import Fraction

# --------------------------------------------------------------------------------------
# symbols
# --------------------------------------------------------------------------------------

SYMS: list[dict] = []  # sid -> {name, kind, ...}
NODES: list[tuple] = []  # DAG nodes
_NODE_CACHE: dict = {}
ATOM_CACHE: dict = {}
POWER_RULES: dict = {}  # sid -> (k, Poly)   meaning sym**k == Poly
ATOM_HYPS: list = []  # (name, V) with V == 0 ; defining equations of atoms (inv, hypot ...)
FACTS: list = []  # (name, Bool) facts known about atoms/symbols (s >= 0 ...)
POSITIVE: set = set()  # sids known > 0
NONNEG: set = set()  # sids known >= 0
NONZERO_ASSUMED: list = []  # textual record of divisions


def reset():
    for c in (SYMS, NODES, ATOM_HYPS, FACTS, NONZERO_ASSUMED):
        c.clear()
    for c in (_NODE_CACHE, ATOM_CACHE, POWER_RULES):
        c.clear()
    POSITIVE.clear()
    NONNEG.clear()
    # ZERO / ONE_V (module-level constants) keep node ids 0 and 1
    node("c", Fraction(0))
    node("c", Fraction(1))


def new_sym(name, kind="input", **meta) -> int:
    SYMS.append({"name": name, "kind": kind, **meta})
    return len(SYMS) - 1


def node(*t) -> int:
    i = _NODE_CACHE.get(t)
    if i is None:
        i = len(NODES)
        NODES.append(t)
        _NODE_CACHE[t] = i
    return i


# --------------------------------------------------------------------------------------
# polynomials: dict monomial -> Fraction, monomial = tuple((sid, exp), ...) sorted by sid DESC
# --------------------------------------------------------------------------------------

ONE = ()


def _mono_mul(a, b):
    if not a:
        return b
    if not b:
        return a
    out = []
    i = j = 0
    la, lb = len(a), len(b)
    while i < la and j < lb:
        sa, ea = a[i]
        sb, eb = b[j]
        if sa == sb:
            e = ea + eb
            if e:
                out.append((sa, e))
            i += 1
            j += 1
        elif sa > sb:
            out.append(a[i])
            i += 1
        else:
            out.append(b[j])
            j += 1
    if i < la:
        out.extend(a[i:])
    if j < lb:
        out.extend(b[j:])
    return tuple(out)


def _needs_power_reduce(m):
    for s, e in m:
        r = POWER_RULES.get(s)
        if r is not None and (e >= r[0] or e < 0):
            return True
    return False


class Poly:
    __slots__ = ("t",)

    def __init__(self, t=None):
        self.t = t if t is not None else {}

    # constructors
    @staticmethod
    def const(c):
        c = Fraction(c)
        return Poly({ONE: c}) if c else Poly()

    @staticmethod
    def sym(sid, e=1):
        return Poly({((sid, e),): Fraction(1)})

    # predicates
    def is_zero(self):
        return not self.t

    def is_const(self):
        return not self.t or (len(self.t) == 1 and ONE in self.t)

    def const_value(self):
        return self.t.get(ONE, Fraction(0))

    def single_term(self):
        if len(self.t) == 1:
            return next(iter(self.t.items()))
        return None

    def key(self):
        return frozenset(self.t.items())

    def syms(self):
        out = set()
        for m in self.t:
            for s, _ in m:
                out.add(s)
        return out

    # arithmetic
    def __add__(self, o):
        if not o.t:
            return self
        if not self.t:
            return o
        a, b = (self.t, o.t) if len(self.t) >= len(o.t) else (o.t, self.t)
        r = dict(a)
        for m, c in b.items():
            v = r.get(m)
            if v is None:
                r[m] = c
            else:
                v = v + c
                if v:
                    r[m] = v
                else:
                    del r[m]
        return Poly(r)

    def __neg__(self):
        return Poly({m: -c for m, c in self.t.items()})

    def __sub__(self, o):
        return self + (-o)

    def scale(self, c):
        c = Fraction(c)
        if not c:
            return Poly()
        return Poly({m: v * c for m, v in self.t.items()})

    def __mul__(self, o):
        if not self.t or not o.t:
            return Poly()
        r = {}
        red = False
        for m1, c1 in self.t.items():
            for m2, c2 in o.t.items():
                m = _mono_mul(m1, m2)
                c = c1 * c2
                v = r.get(m)
                if v is None:
                    r[m] = c
                    if POWER_RULES and not red and _needs_power_reduce(m):
                        red = True
                else:
                    v = v + c
                    if v:
                        r[m] = v
                    else:
                        del r[m]
        p = Poly(r)
        if red:
            p = power_reduce(p)
        return p

    def __pow__(self, k: int):
        if k == 0:
            return Poly.const(1)
        if k < 0:
            st = self.single_term()
            if st is None:
                raise ValueError("negative power of a non-monomial")
            m, c = st
            base = Poly({tuple((s, -e) for s, e in m): 1 / c})
            return base ** (-k)
        r = Poly.const(1)
        b = self
        while k:
            if k & 1:
                r = r * b
            k >>= 1
            if k:
                b = b * b
        return r

    def evalf(self, env):
        tot = 0.0
        for m, c in self.t.items():
            v = float(c)
            for s, e in m:
                x = env[s]
                if e < 0 and x == 0:
                    v = v * float("inf")  # division by zero: IEEE semantics (selected away by guards, or poisons the value)
                else:
                    v *= x ** e
            tot += v
        return tot

    def __repr__(self):
        if not self.t:
            return "0"
        parts = []
        for m, c in sorted(self.t.items(), key=lambda kv: kv[0], reverse=True)[:12]:
            ms = "*".join(
                SYMS[s]["name"] + ("" if e == 1 else f"^{e}") for s, e in m
            )
            parts.append(f"{c}" + ("*" + ms if ms else ""))
        s = " + ".join(parts)
        if len(self.t) > 12:
            s += f" + ...({len(self.t)} terms)"
        return s


def power_reduce(p: Poly) -> Poly:
    """Apply sym**k -> poly rules (sqrt, abs, rademacher, ...) until none applies."""
    changed = True
    while changed:
        changed = False
        out = Poly()
        plain = {}
        for m, c in p.t.items():
            hit = None
            for idx, (s, e) in enumerate(m):
                r = POWER_RULES.get(s)
                if r is not None and (e >= r[0] or e < 0):
                    hit = (idx, s, e, r)
                    break
            if hit is None:
                v = plain.get(m)
                if v is None:
                    plain[m] = c
                else:
                    v += c
                    if v:
                        plain[m] = v
                    else:
                        del plain[m]
                continue
            idx, s, e, (k, rp) = hit
            rest = m[:idx] + m[idx + 1 :]
            if e >= k:
                q, rem = divmod(e, k)
                factor = rp**q
                base = Poly({_mono_mul(rest, ((s, rem),) if rem else ONE): c})
            else:  # negative exponent: s^-1 = s^(k-1) / rp  (needs rp a single term)
                st = rp.single_term()
                if st is None:
                    # cannot normalise; leave as is
                    v = plain.get(m)
                    plain[m] = c if v is None else v + c
                    continue
                q = (-e + k - 1) // k  # number of rp^-1 needed
                rem = e + q * k
                factor = rp ** (-q)
                base = Poly({_mono_mul(rest, ((s, rem),) if rem else ONE): c})
            out = out + _raw_mul(base, factor)
            changed = True
        p = Poly(plain) + out
    return p


def _raw_mul(a: Poly, b: Poly) -> Poly:
    r = {}
    for m1, c1 in a.t.items():
        for m2, c2 in b.t.items():
            m = _mono_mul(m1, m2)
            v = r.get(m)
            c = c1 * c2
            if v is None:
                r[m] = c
            else:
                v += c
                if v:
                    r[m] = v
                else:
                    del r[m]
    return Poly(r)


# --------------------------------------------------------------------------------------
# symbolic scalars
# --------------------------------------------------------------------------------------


class V:
    """Symbolic real scalar: normal form + DAG node."""

    __slots__ = ("p", "n")

    def __init__(self, p: Poly, n: int | None = None):
        self.p = p
        if n is None or p.is_const():
            n = node("c", p.const_value()) if p.is_const() else n
        if n is None:
            n = poly_node(p)
        self.n = n

    def is_const(self):
        return self.p.is_const()

    def const_value(self):
        return self.p.const_value()

    def __add__(self, o):
        o = as_v(o)
        if o.p.is_zero():
            return self
        if self.p.is_zero():
            return o
        return V(self.p + o.p, node("+", self.n, o.n))

    __radd__ = __add__

    def __neg__(self):
        return V(-self.p, node("neg", self.n))

    def __sub__(self, o):
        o = as_v(o)
        if o.p.is_zero():
            return self
        return V(self.p - o.p, node("-", self.n, o.n))

    def __rsub__(self, o):
        return as_v(o) - self

    def __mul__(self, o):
        o = as_v(o)
        if self.p.is_const():
            c = self.p.const_value()
            if c == 1:
                return o
            if c == 0:
                return ZERO
        if o.p.is_const():
            c = o.p.const_value()
            if c == 1:
                return self
            if c == 0:
                return ZERO
        return V(self.p * o.p, node("*", self.n, o.n))

    __rmul__ = __mul__

    def __truediv__(self, o):
        o = as_v(o)
        if o.p.is_const():
            c = o.p.const_value()
            if c == 0:
                raise ZeroDivisionError("symbolic division by the constant 0")
            return self * V(Poly.const(1 / c))
        return self * inv(o)

    def __rtruediv__(self, o):
        return as_v(o) / self

    def __pow__(self, k):
        if isinstance(k, V):
            if not k.is_const():
                return atom_pow(self, k)
            k = k.const_value()
        k = Fraction(k)
        if k.denominator != 1:
            if self.is_const() and self.const_value() >= 0 and k == Fraction(1, 2):
                return sqrt(self)
            if k.denominator in (2, 4, 8):
                # dyadic rational exponent: exact through nested square roots (x >= 0 is the domain of the real power)
                r = self
                q = k.denominator
                while q > 1:
                    r = sqrt(r)
                    q //= 2
                return r ** int(k.numerator)
            return atom_pow(self, as_v(k))
        k = int(k)
        if k == 0:
            return ONE_V
        if k < 0:
            return inv(self) ** (-k)
        r = None
        b = self
        while k:
            if k & 1:
                r = b if r is None else r * b
            k >>= 1
            if k:
                b = b * b
        return r

    def __repr__(self):
        return f"V({self.p!r})"


def as_v(x) -> V:
    if isinstance(x, V):
        return x
    if isinstance(x, Poly):
        return V(x)
    if isinstance(x, (int, Fraction)):
        return V(Poly.const(x))
    if isinstance(x, float):
        if math.isnan(x):
            return poison("nan")  # e.g. fill values of out-of-bounds gathers: must never reach a result
        if math.isinf(x):
            return pos_inf() if x > 0 else -pos_inf()
        return V(Poly.const(snap(x)))
    # numpy scalars
    try:
        import numpy as _np

        if isinstance(x, _np.generic):
            if isinstance(x, (_np.bool_,)):
                return V(Poly.const(int(x)))
            if _np.issubdtype(type(x), _np.integer):
                return V(Poly.const(int(x)))
            return as_v(float(x))
    except ImportError:
        pass
    raise TypeError(f"cannot make a symbolic scalar from {type(x)}")


SNAP_REL = 1e-13


def snap(x: float) -> Fraction:
    """Exact value of a float literal, except that literals within 1e-13 (relative) of a rational with
    denominator <= 10^6 are read as that rational (0.1, 1/3, 5.999999999999999 as 6 ...): the real-number
    idealisation of a constant the code computed or wrote in floating point."""
    fr = Fraction(x)
    if fr.denominator == 1:
        return fr
    s = fr.limit_denominator(10**6)
    if abs(float(s) - x) <= SNAP_REL * max(1.0, abs(x)):
        return s
    return fr


def poly_node(p: Poly) -> int:
    """DAG node for an expanded polynomial (used for multipliers and fresh values)."""
    if p.is_const():
        return node("c", p.const_value())
    terms = []
    for m, c in p.t.items():
        fs = []
        for s, e in m:
            sn = node("s", s)
            if e == 1:
                fs.append(sn)
            elif e > 0:
                fs.append(node("pow", sn, e))
            else:
                fs.append(node("pow", node("inv", sn), -e))
        n = None
        for f in fs:
            n = f if n is None else node("*", n, f)
        if c != 1 or n is None:
            cn = node("c", c)
            n = cn if n is None else node("*", cn, n)
        terms.append(n)
    n = terms[0]
    for t in terms[1:]:
        n = node("+", n, t)
    return n


def sym_v(sid) -> V:
    return V(Poly.sym(sid), node("s", sid))


def fresh(name, kind="input", positive=False, nonneg=False, **meta) -> V:
    sid = new_sym(name, kind, **meta)
    if positive:
        POSITIVE.add(sid)
        NONNEG.add(sid)
    if nonneg:
        NONNEG.add(sid)
    return sym_v(sid)


ZERO = V(Poly())
ONE_V = V(Poly.const(1))


# --------------------------------------------------------------------------------------
# sign reasoning used for simplifying abs / sqrt (syntactic, sound)
# --------------------------------------------------------------------------------------


def known_nonneg(p: Poly) -> bool:
    """True if every term is a product of known-nonneg symbols/even powers with coef >= 0."""
    for m, c in p.t.items():
        if c < 0:
            return False
        for s, e in m:
            if e % 2 and s not in NONNEG:
                return False
    return True


def known_positive(p: Poly) -> bool:
    """Sufficient: all terms nonneg and at least one term strictly positive."""
    if not p.t or not known_nonneg(p):
        return False
    for m, c in p.t.items():
        if c > 0 and all((s in POSITIVE) for s, e in m):
            return True
    return False


# --------------------------------------------------------------------------------------
# atoms
# --------------------------------------------------------------------------------------


def _atom(kind, key, name, build):
    k = (kind, key)
    v = ATOM_CACHE.get(k)
    if v is None:
        v = build()
        ATOM_CACHE[k] = v
    return v


def _mk_atom(kind, name, args, **flags) -> V:
    sid = new_sym(name, "atom", atom=kind, args=args)
    if flags.get("positive"):
        POSITIVE.add(sid)
        NONNEG.add(sid)
    if flags.get("nonneg"):
        NONNEG.add(sid)
    return sym_v(sid)


def _sid(v: V) -> int:
    ((m, c),) = v.p.t.items()
    ((s, e),) = m
    return s


def inv(x: V) -> V:
    """1/x.  Monomials invert to Laurent monomials; anything else gets an atom r with r*x == 1."""
    st = x.p.single_term()
    if st is not None:
        m, c = st
        if any(SYMS[s_].get("atom") == "inf" for s_, _ in m):
            return ZERO  # finite / (+inf) == 0   (only arises from factorials of negative integers)
        p = Poly({tuple((s, -e) for s, e in m): 1 / c})
        if POWER_RULES and _needs_power_reduce(next(iter(p.t))):
            p = power_reduce(p)
        NONZERO_ASSUMED.append(repr(x.p))
        return V(p, node("inv", x.n))

    def build():
        a = _mk_atom("inv", f"inv{len(SYMS)}", (x,), positive=known_positive(x.p))
        ATOM_HYPS.append((f"inv-def:{SYMS[_sid(a)]['name']}", a_times(a, x) - ONE_V))
        NONZERO_ASSUMED.append(repr(x.p))
        return a

    return _atom("inv", x.p.key(), "inv", build)


def a_times(a: V, b: V) -> V:
    return V(a.p * b.p, node("*", a.n, b.n))


def _is_perfect_square(fr: Fraction):
    if fr < 0:
        return None
    n, d = fr.numerator, fr.denominator
    rn, rd = math.isqrt(n), math.isqrt(d)
    if rn * rn == n and rd * rd == d:
        return Fraction(rn, rd)
    return None


def sqrt(x: V) -> V:
    if x.is_const():
        c = x.const_value()
        r = _is_perfect_square(c)
        if r is not None:
            return V(Poly.const(r))
        if c < 0:
            raise ValueError("sqrt of a negative constant")
    # sqrt(c * e^2 ...) : pull out even powers of nonneg symbols?  keep simple: only exact squares
    st = x.p.single_term()
    if st is not None:
        m, c = st
        rc = _is_perfect_square(c)
        if rc is not None and all(e % 2 == 0 and s in NONNEG for s, e in m):
            return V(Poly({tuple((s, e // 2) for s, e in m): rc}))

    def build():
        pos = known_positive(x.p)
        a = _mk_atom("sqrt", f"sqrt{len(SYMS)}", (x,), nonneg=True, positive=pos)
        POWER_RULES[_sid(a)] = (2, x.p)
        FACTS.append((f"sqrt-arg-nonneg:{SYMS[_sid(a)]['name']}", ("ge", x)))
        return a

    return _atom("sqrt", x.p.key(), "sqrt", build)


def vabs(x: V) -> V:
    if x.is_const():
        return V(Poly.const(abs(x.const_value())))
    if known_nonneg(x.p):
        return x
    if known_nonneg((-x.p)):
        return -x
    # |c * m| with a single term: pull out the constant and the sign-known symbols
    st = x.p.single_term()
    if st is not None:
        m, c = st
        known = tuple((s, e) for s, e in m if s in NONNEG or e % 2 == 0)
        unknown = tuple((s, e) for s, e in m if not (s in NONNEG or e % 2 == 0))
        if known or c != 1:
            inner = V(Poly({unknown: Fraction(1)}))
            outer = V(Poly({known: abs(c)}))
            return outer * vabs(inner) if unknown else outer
        # single symbol (odd power)
        if len(unknown) == 1 and unknown[0][1] != 1:
            s, e = unknown[0]
            return vabs(sym_v(s)) ** e

    # canonicalise sign: abs(p) == abs(-p); make the coefficient of the largest monomial positive
    lead = max(x.p.t)
    canon = x if x.p.t[lead] > 0 else -x
    return _atom("abs", canon.p.key(), "abs", lambda: _build_abs(canon))


def _build_abs(x):
    a = _mk_atom("abs", f"abs{len(SYMS)}", (x,), nonneg=True)
    POWER_RULES[_sid(a)] = (2, x.p * x.p)
    return a


def hypot(a: V, b: V) -> V:
    s2 = a * a + b * b
    return sqrt(s2)


def atom_pow(base: V, expo: V) -> V:
    """base ** expo for non-integer or symbolic exponent (opaque, hash-consed)."""
    if base.is_const() and base.const_value() == 1:
        return ONE_V

    def build():
        return _mk_atom(
            "pow", f"pow{len(SYMS)}", (base, expo), positive=known_positive(base.p)
        )

    return _atom("pow", (base.p.key(), expo.p.key()), "pow", build)


def poison(tag) -> V:
    return _atom("poison", tag, "poison", lambda: _mk_atom("poison", f"POISON_{tag}", ()))


def pos_inf() -> V:
    return _atom("inf", (), "inf", lambda: _mk_atom("inf", "+inf", (), positive=True))


def is_inf(v: V) -> bool:
    st = v.p.single_term()
    return st is not None and any(SYMS[s_].get("atom") == "inf" for s_, _ in st[0])


def atom_fun(name: str, *args: V, **flags) -> V:
    """Generic uninterpreted real function application (log, exp, ...), hash-consed on arguments."""

    def build():
        return _mk_atom(name, f"{name}{len(SYMS)}", tuple(args), **flags)

    return _atom(name, tuple(a.p.key() for a in args), name, build)


# ---- booleans ---------------------------------------------------------------------------


class B:
    """Boolean expression: ('const',bool) | ('lt'|'le'|'eq', V)  [V <|<=|== 0] | and/or/not."""

    __slots__ = ("op", "args")

    def __init__(self, op, *args):
        self.op = op
        self.args = args

    def key(self):
        if self.op == "const":
            return ("const", self.args[0])
        if self.op == "var":
            return ("var", self.args[0])
        if self.op in ("lt", "le", "eq"):
            return (self.op, self.args[0].p.key())
        return (self.op,) + tuple(a.key() for a in self.args)

    def is_const(self):
        return self.op == "const"

    def value(self):
        return self.args[0]

    def __repr__(self):
        if self.op == "const":
            return str(self.args[0])
        if self.op == "var":
            return f"bool:{self.args[0]}"
        if self.op in ("lt", "le", "eq"):
            sym = {"lt": "<", "le": "<=", "eq": "=="}[self.op]
            return f"({self.args[0].p!r} {sym} 0)"
        return f"{self.op}({', '.join(map(repr, self.args))})"


TRUE = B("const", True)
FALSE = B("const", False)


def b_const(x):
    return TRUE if x else FALSE


def cmp0(op, d: V) -> B:
    """d op 0 with op in lt/le/eq/gt/ge/ne."""
    if op == "gt":
        return cmp0("lt", -d)
    if op == "ge":
        return cmp0("le", -d)
    if op == "ne":
        return b_not(cmp0("eq", d))
    if d.is_const():
        c = d.const_value()
        return b_const({"lt": c < 0, "le": c <= 0, "eq": c == 0}[op])
    # syntactic sign knowledge
    if op == "lt":
        if known_nonneg(d.p):
            return FALSE
        if known_positive((-d.p)):
            return TRUE
    if op == "le":
        if known_positive(d.p):
            return FALSE
        if known_nonneg((-d.p)):
            return TRUE
    if op == "eq":
        if known_positive(d.p) or known_positive((-d.p)):
            return FALSE
    return B(op, d)


def b_not(a: B) -> B:
    if a.is_const():
        return b_const(not a.value())
    if a.op == "not":
        return a.args[0]
    return B("not", a)


def b_and(a: B, b: B) -> B:
    if a.is_const():
        return b if a.value() else FALSE
    if b.is_const():
        return a if b.value() else FALSE
    return B("and", a, b)


def b_or(a: B, b: B) -> B:
    if a.is_const():
        return TRUE if a.value() else b
    if b.is_const():
        return TRUE if b.value() else a
    return B("or", a, b)


def ite(c: B, a: V, b: V) -> V:
    if c.is_const():
        return a if c.value() else b
    if a.p.key() == b.p.key():
        return a
    # ite(x == 0, 0, x) == x   (the "-0.0 -> 0.0" canonicalisation idiom of jnp)
    if c.op == "eq" and a.p.is_zero() and (c.args[0].p.key() == b.p.key() or c.args[0].p.key() == (-b.p).key()):
        return b

    def build():
        at = _mk_atom("ite", f"ite{len(SYMS)}", (c, a, b))
        sid = _sid(at)
        # sign fix-up idiom  where(sign(x) == 0, +-1, sign(x))  takes values in {-1, +1}: its square is 1
        try:
            if a.is_const() and abs(a.const_value()) == 1 and c.op == "eq" and c.args[0].p.key() == b.p.key():
                st = b.p.single_term()
                if st is not None and st[1] == 1 and len(st[0]) == 1 and st[0][0][1] == 1 and SYMS[st[0][0][0]].get("atom") == "sign":
                    POWER_RULES[sid] = (2, Poly.const(1))
        except Exception:
            pass
        if known_nonneg(a.p) and known_nonneg(b.p):
            NONNEG.add(sid)
        if known_positive(a.p) and known_positive(b.p):
            POSITIVE.add(sid)
            NONNEG.add(sid)
        return at

    return _atom("ite", (c.key(), a.p.key(), b.p.key()), "ite", build)


def vmax(a: V, b: V) -> V:
    d = a - b
    if d.is_const():
        return a if d.const_value() >= 0 else b
    if known_nonneg(d.p):
        return a
    if known_nonneg((-d.p)):
        return b

    def build():
        at = _mk_atom("max", f"max{len(SYMS)}", (a, b))
        sid = _sid(at)
        if known_nonneg(a.p) or known_nonneg(b.p):
            NONNEG.add(sid)
        if known_positive(a.p) or known_positive(b.p):
            POSITIVE.add(sid)
            NONNEG.add(sid)
        return at

    return _atom("max", frozenset([a.p.key(), b.p.key()]), "max", build)


def vmin(a: V, b: V) -> V:
    d = a - b
    if d.is_const():
        return b if d.const_value() >= 0 else a
    if known_nonneg(d.p):
        return b
    if known_nonneg((-d.p)):
        return a

    def build():
        at = _mk_atom("min", f"min{len(SYMS)}", (a, b))
        sid = _sid(at)
        if known_nonneg(a.p) and known_nonneg(b.p):
            NONNEG.add(sid)
        if known_positive(a.p) and known_positive(b.p):
            POSITIVE.add(sid)
            NONNEG.add(sid)
        return at

    return _atom("min", frozenset([a.p.key(), b.p.key()]), "min", build)


def vsign(x: V) -> V:
    if x.is_const():
        c = x.const_value()
        return V(Poly.const((c > 0) - (c < 0)))
    if known_positive(x.p):
        return ONE_V
    if known_positive((-x.p)):
        return -ONE_V
    return atom_fun("sign", x)
